package abft

// End-to-end demonstration of finding C04-tempid-collision against the real code:
// the 256th Build of a node re-uses the temporary event ID of its 1st Build, and the
// forkless-cause cache (keyed by event ID, not purged by DropNotFlushed) answers with the
// values computed for the 1st event.  Build then assigns frame 1 although frame 2 is allowed
// (a fresh instance over the same DAG assigns 2).

import (
	"testing"

	"github.com/Fantom-foundation/lachesis-base/hash"
	"github.com/Fantom-foundation/lachesis-base/inter/dag/tdag"
	"github.com/Fantom-foundation/lachesis-base/inter/idx"
	"github.com/Fantom-foundation/lachesis-base/inter/pos"
	"github.com/Fantom-foundation/lachesis-base/kvdb"
	"github.com/Fantom-foundation/lachesis-base/kvdb/memorydb"
	"github.com/Fantom-foundation/lachesis-base/lachesis"
	"github.com/Fantom-foundation/lachesis-base/utils/adapters"
	"github.com/Fantom-foundation/lachesis-base/utils/cachescale"
	"github.com/Fantom-foundation/lachesis-base/vecfc"
)

func demoInstance(nodes []idx.ValidatorID) (*IndexedLachesis, *EventStore) {
	b := pos.NewBuilder()
	for _, v := range nodes {
		b.Set(v, 1)
	}
	crit := func(err error) { panic(err) }
	store := NewStore(memorydb.New(), func(idx.Epoch) kvdb.Store { return memorydb.New() }, crit, LiteStoreConfig())
	if err := store.ApplyGenesis(&Genesis{Validators: b.Build(), Epoch: FirstEpoch}); err != nil {
		panic(err)
	}
	input := NewEventStore()
	// production-sized index caches (the test helper uses a 200-entry cache)
	lch := NewIndexedLachesis(store, input, &adapters.VectorToDagIndexer{Index: vecfc.NewIndex(crit, vecfc.DefaultConfig(cachescale.Identity))}, crit, LiteConfig())
	if err := lch.Bootstrap(lachesis.ConsensusCallbacks{BeginBlock: func(*lachesis.Block) lachesis.BlockCallbacks { return lachesis.BlockCallbacks{} }}); err != nil {
		panic(err)
	}
	return lch, input
}

type demoEv struct {
	creator idx.ValidatorID
	seq     idx.Event
	lamport idx.Lamport
	parents hash.Events
	tag     byte
}

func (d demoEv) mutable() *tdag.TestEvent {
	e := &tdag.TestEvent{}
	e.SetEpoch(FirstEpoch)
	e.SetCreator(d.creator)
	e.SetSeq(d.seq)
	e.SetLamport(d.lamport)
	e.SetParents(d.parents)
	return e
}

func TestVerifC04TempIDEndToEnd(t *testing.T) {
	nodes := []idx.ValidatorID{1, 2, 3, 4}
	for _, speculative := range []int{0, 254} {
		lch, input := demoInstance(nodes)
		process := func(d demoEv) hash.Event {
			e := d.mutable()
			if err := lch.Build(e); err != nil {
				t.Fatal(err)
			}
			var id [24]byte
			id[0], id[1], id[2] = 0xF0, byte(d.creator), byte(d.seq)
			e.SetID(id)
			input.SetEvent(e)
			if err := lch.Process(e); err != nil {
				t.Fatalf("process %d/%d: %v", d.creator, d.seq, err)
			}
			return e.ID()
		}
		// every process() below also calls Build, advancing the node's temporary-ID counter by one
		a1 := process(demoEv{1, 1, 1, nil, 0})                    // 1
		b1 := process(demoEv{2, 1, 1, nil, 0})                    // 2
		c1 := process(demoEv{3, 1, 1, nil, 0})                    // 3
		d1 := process(demoEv{4, 1, 1, nil, 0})                    // 4
		a2 := process(demoEv{1, 2, 2, hash.Events{a1}, 0})        // 5
		b2 := process(demoEv{2, 2, 2, hash.Events{b1}, 0})        // 6   B only references itself
		b3 := process(demoEv{2, 3, 3, hash.Events{b2}, 0})        // 7
		c2 := process(demoEv{3, 2, 2, hash.Events{c1, a1, b1, d1}, 0}) // 8
		d2 := process(demoEv{4, 2, 2, hash.Events{d1, a1, b1, c1}, 0}) // 9
		c3 := process(demoEv{3, 3, 3, hash.Events{c2, d2}, 0})    // 10
		d3 := process(demoEv{4, 3, 3, hash.Events{d2, c2}, 0})    // 11
		n := 0
		if speculative > 0 {
			// Build #12: a candidate the node decides not to emit: parents {a2, b3}, Lamport 4.
			// It is forkless-caused by no frame-1 root (A and B alone hold 2 of the 3 needed): frame 1.
			cand1 := demoEv{1, 3, 4, hash.Events{a2, b3}, 0}.mutable()
			if err := lch.Build(cand1); err != nil {
				t.Fatal(err)
			}
			if cand1.Frame() != 1 {
				t.Fatalf("candidate 1: expected frame 1, got %d", cand1.Frame())
			}
			// further speculative builds until the counter reaches 12*256-1
			n = 12*256 - 1 - 12
			for i := 0; i < n; i++ {
				e := demoEv{1, 3, 3, hash.Events{a2}, 0}.mutable()
				if err := lch.Build(e); err != nil {
					t.Fatal(err)
				}
			}
		}
		// the event under test (Build #12*256 in the second run): parents {a2, c3, d3}, Lamport 4 as well.
		// c2 and d2 observe a1, so A, C and D vouch for a1: forkless-caused by a quorum of frame-1 roots: frame 2.
		e := demoEv{1, 3, 4, hash.Events{a2, c3, d3}, 0}.mutable()
		if err := lch.Build(e); err != nil {
			t.Fatal(err)
		}
		t.Logf("speculative builds before=%d: Build assigned frame %d", n, e.Frame())
		if speculative == 0 && e.Frame() != 2 {
			t.Fatalf("fresh instance: expected frame 2, got %d", e.Frame())
		}
		if speculative > 0 && e.Frame() != 2 {
			t.Errorf("after %d earlier Build calls the same event is assigned frame %d instead of 2 (temporary ID collision + stale forkless-cause cache)", n+12, e.Frame())
		}
	}
}
