#!/bin/bash
# run_all.sh [tier] [ids...]: run the registered checks in /verif (writes evidence/*.json)
cd /verif
T=${1:-quick}; shift
IDS=${@:-$(python3 -c "import json;print(' '.join(sorted(json.load(open('checks.json')))))")}
for p in $IDS; do
  s=$(date +%s)
  out=$(./check $p --tier $T 2>&1); rc=$?
  echo "$p rc=$rc $(( $(date +%s) - s ))s $(echo "$out" | grep -E "VIOLATION|KNOWN|holds within|inconclusive|vacuity" | head -3 | tr '\n' ' ')"
done
