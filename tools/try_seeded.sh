#!/bin/bash
# try_seeded.sh <seed-dir> <property> [tier]: apply the seeded change to /repo, run the check, undo.
# Prints CAUGHT / MISSED and the exit status of the check.
set -u
D=$1; P=$2; T=${3:-quick}
cd /repo || exit 2
if ! git diff --quiet; then echo "/repo has uncommitted changes"; exit 2; fi
if ! git apply --check "$D/patch.diff" 2>/dev/null; then echo "patch does not apply"; exit 2; fi
git apply "$D/patch.diff"
cd /verif
out=$(./check "$P" --tier "$T" 2>&1); rc=$?
git -C /repo checkout -- .
echo "$out" | grep -E "VIOLATION|holds within|inconclusive|KNOWN|vacuity|note:" | head -8
if [ $rc -eq 1 ]; then echo "RESULT $P $(basename $D): CAUGHT (exit 1)"; else echo "RESULT $P $(basename $D): MISSED (exit $rc)"; fi
