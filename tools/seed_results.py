#!/usr/bin/env python3
"""Writes /verif/seeded/RESULTS.md from the meta.json files."""
import json, os, glob
rows = []
for m in sorted(glob.glob("/verif/seeded/*/meta.json")):
    d = json.load(open(m))
    cw = d.get("checked_with", {})
    rows.append((os.path.basename(os.path.dirname(m)), d.get("breaks_property", d.get("property")), d.get("summary", "").replace("\n", " ")[:160],
                 d.get("needs", "").replace("\n", " ")[:160], cw.get("result", "not run yet").replace("\n", " ")))
with open("/verif/seeded/RESULTS.md", "w") as f:
    f.write("# Seeded changes and which checks catch them\n\nEach change was produced by an independent sub-agent from the property text only, re-confirmed by "
            "`tools/confirm_seed.sh` (compiles, existing suite passes with it, demo fails with / passes without) and run against the checks with "
            "`tools/try_seeded.sh` (apply to /repo, run `./check`, undo).\n\n| seed | property | change | needs | result |\n|---|---|---|---|---|\n")
    for r in rows:
        f.write("| " + " | ".join(x.replace("|", "/") for x in r) + " |\n")
print(len(rows), "seeds")
