#!/usr/bin/env python3
"""Development aid: run an ad-hoc native Go test file inside a repo package together with the
harness overlay (same file mapping as gosym).  usage: native_test.py <pkg> <test.go> [go test args]"""
import json, os, subprocess, sys, tempfile
repo = os.environ.get("VERIF_REPO", "/repo")
here = os.path.dirname(os.path.dirname(os.path.abspath(__file__)))
pkg, test = sys.argv[1], os.path.abspath(sys.argv[2])
H = os.path.join(here, "harness")
ov = {}
for f in os.listdir(os.path.join(H, "sym")):
    if f.endswith(".go"): ov[f"{repo}/zzverif/sym/{f}"] = os.path.join(H, "sym", f)
for l in os.listdir(os.path.join(H, "zzlib")):
    for f in os.listdir(os.path.join(H, "zzlib", l)):
        if f.endswith(".go"): ov[f"{repo}/zzverif/{l}/{f}"] = os.path.join(H, "zzlib", l, f)
for f in os.listdir(os.path.join(H, pkg)):
    if f.endswith(".go"): ov[f"{repo}/{pkg}/zz_verif_{f}"] = os.path.join(H, pkg, f)
ov[f"{repo}/{pkg}/zz_verif_adhoc_test.go"] = test
with tempfile.NamedTemporaryFile("w", suffix=".json", delete=False) as t:
    json.dump({"Replace": ov}, t)
env = dict(os.environ, GOFLAGS="-mod=mod", GOPROXY="off", GOSUMDB="off", GOTOOLCHAIN="local")
rc = subprocess.call(["go", "test", "-vet=off", "-count=1", "-overlay", t.name] + sys.argv[3:] + [f"./{pkg}/"], cwd=repo, env=env)
os.unlink(t.name)
sys.exit(rc)
