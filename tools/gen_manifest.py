#!/usr/bin/env python3
"""Regenerates /verif/MANIFEST.json from checks.json (one entry per claimed property)."""
import json, os
ROOT = os.path.dirname(os.path.dirname(os.path.abspath(__file__)))
checks = json.load(open(os.path.join(ROOT, "checks.json")))
props = {}
for l in open(os.path.join(ROOT, "properties.jsonl")):
    p = json.loads(l); props[p["id"]] = p

NA = {
 "C28": "data-race freedom and linearizability quantify over interleavings at memory-access granularity across goroutines; the solver-based engine is a sequential symbolic interpreter with stubbed locks and has no thread/memory model, and a bounded interleaving encoder for Go's memory model is out of reach of what is installed (what the sequential checks establish - each operation, run atomically, matches its model - is claimed under C14, C22, C25, C29, C30, not here)",
}
PENDING = "harness not built yet in this session (planned in DESIGN.md section 3)"

def bounds_text(pc):
    b = pc.get("bounds")
    if isinstance(b, dict):
        return "quick: " + b.get("quick", "") + " | thorough: " + b.get("thorough", "")
    return b or ""

entries = []
for pid in sorted(checks):
    pc = checks[pid]
    partial = " PARTIAL CLAIM. " if "PARTIAL" in (pc.get("outside") or "") else " "
    entries.append({
        "property_id": pid,
        "quick_cmd": f"./check {pid} --tier quick",
        "thorough_cmd": f"./check {pid} --tier thorough",
        "evidence_file": f"/verif/evidence/{pid}.json",
        "replay_cmd_template": f"./check {pid} --replay {{path}}",
        "engine": "gosym",
        "level_claimed": {
            "category": "model_checking",
            "text": ("Bounded symbolic model checking of the real code: the harness functions (" +
                     ", ".join(sorted({r["harness"] for r in pc["quick"] + pc.get("thorough", [])})) +
                     ") are executed on the go/ssa form of /repo's current source with SMT terms for the symbolic inputs; every feasible path is explored and each assertion is decided by z3 for ALL values of the inputs of that path; every counterexample and a sample of witnesses are replayed natively against the real build." + partial +
                     "Bounds: " + bounds_text(pc)),
            "design_ref": f"DESIGN.md section 3 ({pid})",
        },
        "level_note": "Outside the claim: " + (pc.get("outside") or "-") + ". Trusted base: the symbolic SSA interpreter (validated by native replay of solver models), z3 5.1 (thorough tier re-checks logged assertion queries on z3 4.8.12 and cvc5), stubs: " + "; ".join(pc.get("assumptions", [])),
        "technique": "symbolic execution of go/ssa (own engine) + SMT (z3: bit-vectors / linear integer arithmetic), bounded; native replay of models",
    })

na = []
for pid in sorted(props):
    if pid in checks:
        continue
    na.append({"property_id": pid, "reason": NA.get(pid, PENDING)})

manifest = {
    "version": 1,
    "setup_cmd": "cd /verif/engine && GOFLAGS=-mod=mod GOPROXY=off GOSUMDB=off GOTOOLCHAIN=local go build -o /verif/bin/gosym ./cmd/gosym",
    "hooks": {
        "guard": "verif",
        "enable": "none needed: harnesses are injected in-package through a go/packages overlay (symbolic run) and `go test -overlay` (native replay); /repo is never written by the checks",
        "baseline_off_cmd": "cd /repo && go test -vet=off -count=1 -timeout 25m ./...",
        "source_commits": [],
        "add_only": True,
    },
    "engines": [{"name": "gosym", "path": "/verif/engine", "serves_properties": sorted(checks),
                 "kind_free_text": "symbolic SSA interpreter for Go (fork of x/tools go/ssa/interp: SMT-term scalars, symbolic byte strings, ordered maps, Int mode), in-process libz3 5.1, path exploration by re-execution from decision prefixes over worker processes, native replay of every model"}],
    "checks": entries,
    "not_applicable": na,
    "notes": "Fixes of genuine defects in /repo are separate `fix:` commits listed in known_findings.json (status fixed). All checks share ./check <ID>; harness sources are under /verif/harness.",
}
json.dump(manifest, open(os.path.join(ROOT, "MANIFEST.json"), "w"), indent=1)
print("claimed:", len(entries), "not applicable / pending:", len(na))
