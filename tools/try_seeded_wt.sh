#!/bin/bash
# try_seeded_wt.sh <seed-dir> <property> [tier]: like try_seeded.sh but leaves /repo alone: the seeded
# change is applied in a scratch worktree of /repo under /tmp and the check runs against that
# (VERIF_REPO); evidence and replay files of such runs go to /verif/.work/scratch-*.
set -u
D=$1; P=$2; T=${3:-quick}
WT=/tmp/wt/try-$(basename $D)-$$
git -C /repo worktree add --detach $WT HEAD >/dev/null 2>&1 || exit 2
cd $WT && git apply "$D/patch.diff" || { echo "patch does not apply"; git -C /repo worktree remove --force $WT; exit 2; }
cd /verif
out=$(VERIF_REPO=$WT ./check "$P" --tier "$T" 2>&1); rc=$?
git -C /repo worktree remove --force $WT
echo "$out" | grep -E "VIOLATION|holds within|inconclusive|KNOWN|vacuity|note:" | head -8
if [ $rc -eq 1 ]; then echo "RESULT $P $(basename $D): CAUGHT (exit 1)"; else echo "RESULT $P $(basename $D): MISSED (exit $rc)"; fi
