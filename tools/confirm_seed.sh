#!/bin/bash
# confirm_seed.sh <id> <property>: re-confirm a seeded change in its scratch worktree /tmp/wt/<id>
# (compiles, existing suite passes with it, demo fails with it and passes without), then file it
# under /verif/seeded/<id>/ and remove the worktree.
set -u
ID=$1; P=$2; WT=/tmp/wt/$ID; S=/tmp/seeded/$ID
export GOFLAGS=-mod=mod GOPROXY=off GOSUMDB=off GOTOOLCHAIN=local
cd $WT || exit 2
PKG=$(python3 -c "import json;print(json.load(open('$S/meta.json'))['demo_pkg_dir'])")
DEMO=$WT/$PKG/zz_seeded_demo_test.go
git checkout -q -- . ; rm -f $DEMO
git apply $S/patch.diff || { echo "patch does not apply"; exit 2; }
go build ./... || { echo "BUILD FAILS"; exit 1; }
if go test -vet=off -count=1 -timeout 25m ./... > /tmp/seeded/$ID.suite.log 2>&1; then suite=pass; else suite=FAIL; fi
cp $S/zz_seeded_demo_test.go $DEMO
if go test -vet=off -count=1 -run 'TestSeededDemo' ./$PKG/ > /tmp/seeded/$ID.demo_with.log 2>&1; then with=pass; else with=fail; fi
git apply -R $S/patch.diff
if go test -vet=off -count=1 -run 'TestSeededDemo' ./$PKG/ > /tmp/seeded/$ID.demo_without.log 2>&1; then without=pass; else without=fail; fi
echo "$ID: suite_with_patch=$suite demo_with_patch=$with demo_without_patch=$without"
if [ $suite = pass ] && [ $with = fail ] && [ $without = pass ]; then
  mkdir -p /verif/seeded/$ID
  cp $S/patch.diff $S/zz_seeded_demo_test.go /verif/seeded/$ID/
  python3 - <<PY
import json
m=json.load(open('$S/meta.json'))
m.update({"breaks_property":"$P","confirmed_by_me":{"worktree":"$WT (removed afterwards)","ran":["go build ./...","go test -vet=off -count=1 -timeout 25m ./...  (whole existing suite with the patch: pass)","go test -run TestSeededDemo ./$PKG/ with the patch: FAIL","same without the patch: pass"]}})
json.dump(m,open('/verif/seeded/$ID/meta.json','w'),indent=1)
PY
  echo "  filed under /verif/seeded/$ID"
fi
cd /repo && git worktree remove --force $WT && echo "  worktree removed"
