package interp

// Intrinsics: the harness nondeterminism API (package zzverif/sym) and the
// environment stubs (sync, fmt, errors, bytealg, ...).  Every stub that is
// used on a path is recorded in PathCtx.Stubs and ends up in the evidence.

import (
	"fmt"
	"go/types"
	"runtime"
	"strings"

	"gosym/smt"

	"golang.org/x/tools/go/ssa"
)

const symPkg = "github.com/Fantom-foundation/lachesis-base/zzverif/sym."

func posOf(fr *frame) string {
	// position of the call site in the harness (caller frame's current instruction is unknown;
	// use function name)
	if fr.caller != nil {
		return fr.caller.fn.String()
	}
	return ""
}

func strArg(v value) string {
	switch v := v.(type) {
	case string:
		return v
	}
	abortPath("inconclusive", "harness error: sym API needs a constant string name")
	return ""
}

func symInput(k types.BasicKind) externalFn {
	return func(fr *frame, args []value) value {
		return cur.newInput(strArg(args[0]), k)
	}
}

func init() {
	for k, v := range map[string]externalFn{
		symPkg + "Bool": symInput(types.Bool),
		symPkg + "U8":   symInput(types.Uint8),
		symPkg + "U16":  symInput(types.Uint16),
		symPkg + "U32":  symInput(types.Uint32),
		symPkg + "U64":  symInput(types.Uint64),
		symPkg + "I8":   symInput(types.Int8),
		symPkg + "I16":  symInput(types.Int16),
		symPkg + "I32":  symInput(types.Int32),
		symPkg + "I64":  symInput(types.Int64),
		symPkg + "Int":  symInput(types.Int),
		symPkg + "Assume": func(fr *frame, args []value) value {
			cur.doAssume(args[0])
			return nil
		},
		symPkg + "Assert": func(fr *frame, args []value) value {
			cur.doAssert(args[0], strArg(args[1]), posOf(fr))
			return nil
		},
		symPkg + "Reach": func(fr *frame, args []value) value {
			cur.Reached[strArg(args[0])] = true
			return nil
		},
		symPkg + "Known": func(fr *frame, args []value) value {
			return cur.Known[strArg(args[0])]
		},
		symPkg + "Symbolic": func(fr *frame, args []value) value { return true },
		symPkg + "Choice": func(fr *frame, args []value) value {
			name := strArg(args[0])
			n := int(asInt64(args[1]))
			if n <= 1 {
				return 0
			}
			v := cur.newInput(name, types.Int).(sv)
			cur.assume(rangeTerm(v, n))
			return cur.concretizeIndex(v, n)
		},
		symPkg + "Concrete": func(fr *frame, args []value) value {
			// Concrete(x uint64) uint64: fork on the value
			return cur.concretize(args[0])
		},
		symPkg + "ConcreteInt": func(fr *frame, args []value) value {
			return cur.concretize(args[0])
		},
		symPkg + "Observe": func(fr *frame, args []value) value {
			cur.observe(strArg(args[0]), args[1])
			return nil
		},
		symPkg + "Ite": func(fr *frame, args []value) value { // Ite(c bool, a, b uint64) uint64
			return iteValue(toTerm(args[0]), args[1], args[2])
		},
		symPkg + "IteI": func(fr *frame, args []value) value {
			return iteValue(toTerm(args[0]), args[1], args[2])
		},
		symPkg + "IteI64": func(fr *frame, args []value) value {
			return iteValue(toTerm(args[0]), args[1], args[2])
		},
		symPkg + "BoolToI64": func(fr *frame, args []value) value {
			return iteValue(toTerm(args[0]), int64(1), int64(0))
		},
		symPkg + "IteB": func(fr *frame, args []value) value {
			return iteValue(toTerm(args[0]), args[1], args[2])
		},
		symPkg + "And": func(fr *frame, args []value) value {
			return boolVal(smt.And(toTerm(args[0]), toTerm(args[1])))
		},
		symPkg + "Or": func(fr *frame, args []value) value {
			return boolVal(smt.Or(toTerm(args[0]), toTerm(args[1])))
		},
		symPkg + "Not": func(fr *frame, args []value) value {
			return boolVal(smt.Not(toTerm(args[0])))
		},
		symPkg + "Implies": func(fr *frame, args []value) value {
			return boolVal(smt.Implies(toTerm(args[0]), toTerm(args[1])))
		},
		symPkg + "Iff": func(fr *frame, args []value) value {
			return boolVal(smt.Eq(toTerm(args[0]), toTerm(args[1])))
		},
		symPkg + "Panics": func(fr *frame, args []value) value {
			p, _ := catchTargetPanic(fr, args[0])
			return p
		},
		symPkg + "PanicMsg": func(fr *frame, args []value) value {
			_, msg := catchTargetPanic(fr, args[0])
			return msg
		},
		symPkg + "ZU":   func(fr *frame, args []value) value { return structure{zint{zTermOf(args[0])}} },
		symPkg + "ZI":   func(fr *frame, args []value) value { return structure{zint{zTermOf(args[0])}} },
		symPkg + "ZAdd": func(fr *frame, args []value) value { return structure{zint{smt.IAdd(zArg(args[0]), zArg(args[1]))}} },
		symPkg + "ZSub": func(fr *frame, args []value) value { return structure{zint{smt.ISub(zArg(args[0]), zArg(args[1]))}} },
		symPkg + "ZMul": func(fr *frame, args []value) value { return structure{zint{smt.IMul(zArg(args[0]), zArg(args[1]))}} },
		symPkg + "ZLe":  func(fr *frame, args []value) value { return boolVal(smt.ILe(zArg(args[0]), zArg(args[1]))) },
		symPkg + "ZLt":  func(fr *frame, args []value) value { return boolVal(smt.ILt(zArg(args[0]), zArg(args[1]))) },
		symPkg + "ZEq":  func(fr *frame, args []value) value { return boolVal(smt.Eq(zArg(args[0]), zArg(args[1]))) },
		symPkg + "IntMode": func(fr *frame, args []value) value {
			cur.IntMode = args[0].(bool)
			return nil
		},
		symPkg + "Overflows": func(fr *frame, args []value) value { return cur.Overflows },
		symPkg + "YieldOnWaitGroup": func(fr *frame, args []value) value {
			cur.YieldOnWG = args[0].(bool)
			return nil
		},
		symPkg + "RandExtremes": func(fr *frame, args []value) value {
			cur.RandExtremes = args[0].(bool)
			return nil
		},
		symPkg + "NondetMaps": func(fr *frame, args []value) value {
			cur.NondetMaps = args[0].(bool)
			return nil
		},
		symPkg + "Unwind": func(fr *frame, args []value) value {
			cur.MaxDecisions = int(asInt64(args[0]))
			return nil
		},
		symPkg + "NumGo": func(fr *frame, args []value) value { return len(cur.goQueue) },
		symPkg + "RunGo": func(fr *frame, args []value) value {
			i := int(asInt64(args[0]))
			if i < 0 || i >= len(cur.goQueue) {
				abortPath("inconclusive", "harness error: RunGo(%d) with %d queued", i, len(cur.goQueue))
			}
			t := cur.goQueue[i]
			cur.goQueue = append(cur.goQueue[:i:i], cur.goQueue[i+1:]...)
			return runUntilBlocked(fr, func() { call(fr.i, nil, t.pos, t.fn, t.args) })
		},
		symPkg + "RunUntilBlocked": func(fr *frame, args []value) value {
			return runUntilBlocked(fr, func() { call(fr.i, fr, 0, args[0], nil) })
		},

		// ---- sync ----
		// mutexes: no-ops unless the harness opts in with sym.TrackMutexes: then the lock state is kept and
		// acquiring a lock that is held parks the caller (blockedPanic, caught by sym.RunUntilBlocked) -- used to
		// model "another goroutine calls X while this one is inside the monitor"
		"(*sync.Mutex).Lock":      func(fr *frame, args []value) value { mutexLock(args[0], true); return nil },
		"(*sync.Mutex).Unlock":    func(fr *frame, args []value) value { mutexUnlock(args[0], true); return nil },
		"(*sync.Mutex).TryLock":   func(fr *frame, args []value) value { return true },
		"(*sync.RWMutex).Lock":    func(fr *frame, args []value) value { mutexLock(args[0], true); return nil },
		"(*sync.RWMutex).Unlock":  func(fr *frame, args []value) value { mutexUnlock(args[0], true); return nil },
		"(*sync.RWMutex).RLock":   func(fr *frame, args []value) value { mutexLock(args[0], false); return nil },
		"(*sync.RWMutex).RUnlock": func(fr *frame, args []value) value { mutexUnlock(args[0], false); return nil },
		symPkg + "TrackMutexes": func(fr *frame, args []value) value {
			cur.TrackMutex = args[0].(bool)
			return nil
		},
		"(*sync.WaitGroup).Add":  noop,
		"(*sync.WaitGroup).Done": noop,
		// Wait: a no-op unless the harness opted in (sym.YieldOnWaitGroup): then the environment registered
		// with sym.OnYield acts once (tag "wg"): it is expected to run the goroutines being waited for
		"(*sync.WaitGroup).Wait": func(fr *frame, args []value) value {
			if cur.YieldOnWG && cur.yieldFn != nil {
				call(fr.i, fr, 0, cur.yieldFn, []value{"wg"})
			}
			return nil
		},
		"sync.runtime_registerPoolCleanup": noop,
		"runtime.SetFinalizer":             noop,
		"runtime.KeepAlive":                noop,
		"runtime.Gosched":                  noop,
		"runtime.GC":                       noop,

		// ---- errors / fmt ----
		"github.com/pkg/errors.New": func(fr *frame, args []value) value {
			return callByName(fr, "errors", "New", args)
		},
		"fmt.Errorf": func(fr *frame, args []value) value {
			return callByName(fr, "errors", "New", []value{fmtSprintf(args)})
		},
		"fmt.Sprintf": func(fr *frame, args []value) value { return fmtSprintf(args) },
		"fmt.Sprint":  ext۰fmt۰Sprint,
		"fmt.Println": func(fr *frame, args []value) value { return tuple{0, iface{}} },
		"fmt.Printf":  func(fr *frame, args []value) value { return tuple{0, iface{}} },

		// ---- bytes / bytealg ----
		"bytes.Equal":   ext۰bytes۰Equal,
		"bytes.Compare": func(fr *frame, args []value) value { return bytesCompareValue(args[0].([]value), args[1].([]value)) },
		"internal/bytealg.Compare": func(fr *frame, args []value) value {
			return bytesCompareValue(args[0].([]value), args[1].([]value))
		},
		"internal/bytealg.Equal": ext۰bytes۰Equal,
		"internal/bytealg.IndexByte": func(fr *frame, args []value) value {
			return indexByte(args[0].([]value), args[1])
		},
		"internal/bytealg.IndexByteString": func(fr *frame, args []value) value {
			return indexByte(strBytes(args[0]), args[1])
		},
		"bytes.IndexByte":   func(fr *frame, args []value) value { return indexByte(args[0].([]value), args[1]) },
		"strings.IndexByte": func(fr *frame, args []value) value { return indexByte(strBytes(args[0]), args[1]) },
		"bytes.HasPrefix": func(fr *frame, args []value) value {
			s, p := args[0].([]value), args[1].([]value)
			if len(s) < len(p) {
				return false
			}
			return boolVal(bytesEqTerm(s[:len(p)], p))
		},
		"strings.HasPrefix": func(fr *frame, args []value) value {
			s, p := strBytes(args[0]), strBytes(args[1])
			if len(s) < len(p) {
				return false
			}
			return boolVal(bytesEqTerm(s[:len(p)], p))
		},
	} {
		externals[k] = v
	}
}

func noop(fr *frame, args []value) value { return nil }

func condType(fr *frame) types.Type {
	return fr.i.prog.ImportedPackage("sync").Type("Cond").Type()
}

func callByName(fr *frame, pkg, fn string, args []value) value {
	p := fr.i.prog.ImportedPackage(pkg)
	if p == nil {
		unsupported("package %s not loaded", pkg)
	}
	return call(fr.i, fr, 0, p.Func(fn), args)
}

func ext۰bytes۰EqualSym(a, b []value) value { return boolVal(bytesEqTerm(a, b)) }

func indexByte(s []value, c value) value {
	// first index i with s[i]==c, else -1 (ite chain, no forking)
	r := smt.Const(64, ^uint64(0))
	ct := toTerm(c)
	for i := len(s) - 1; i >= 0; i-- {
		r = smt.Ite(smt.Eq(toTerm(s[i]), ct), smt.Const(64, uint64(i)), r)
	}
	return fromTerm(r, types.Int)
}

// goValue converts an interpreter value to a printable Go value.
func goValue(v value) interface{} {
	switch v := v.(type) {
	case bool, int, int8, int16, int32, int64, uint, uint8, uint16, uint32, uint64, uintptr, float32, float64, string:
		return v
	case iface:
		if v.t == nil {
			return nil
		}
		return goValue(v.v)
	case sv:
		return "<sym>"
	case sstr:
		return "<symstr>"
	case []value:
		allBytes := len(v) > 0
		for _, e := range v {
			if _, ok := e.(uint8); !ok {
				allBytes = false
			}
		}
		if allBytes {
			b := make([]byte, len(v))
			for i, e := range v {
				b[i] = e.(uint8)
			}
			return b
		}
	}
	return toString(v)
}

func fmtSprintf(args []value) value {
	format, ok := args[0].(string)
	if !ok {
		return "<symbolic format>"
	}
	var vs []interface{}
	if len(args) > 1 {
		if rest, ok := args[1].([]value); ok {
			for _, a := range rest {
				vs = append(vs, goValue(a))
			}
		}
	}
	// %w is only valid in Errorf
	format = strings.ReplaceAll(format, "%w", "%v")
	return fmt.Sprintf(format, vs...)
}

// catchTargetPanic calls the target func value f and reports whether it
// panicked (target-level panic or runtime error), never catching engine panics.
func catchTargetPanic(fr *frame, f value) (panicked bool, msg value) {
	msg = ""
	defer func() {
		if p := recover(); p != nil {
			if isEnginePanic(p) {
				panic(p)
			}
			panicked = true
			msg = panicString(p)
		}
	}()
	call(fr.i, fr, 0, f, nil)
	return
}

func panicString(p interface{}) string {
	switch p := p.(type) {
	case targetPanic:
		if e, ok := p.v.(iface); ok {
			if s, ok := e.v.(string); ok {
				return s
			}
			// error values: best effort (errors.errorString and similar: pointer to a struct holding the text)
			if p, ok := e.v.(*value); ok && p != nil {
				if st, ok := (*p).(structure); ok {
					for _, f := range st {
						if s, ok := f.(string); ok {
							return s
						}
					}
				}
			}
			return toString(e.v)
		}
		return toString(p.v)
	case runtime.Error:
		return p.Error()
	case error:
		return p.Error()
	case string:
		return p
	}
	return fmt.Sprint(p)
}

func runUntilBlocked(fr *frame, f func()) (blocked value) {
	blocked = false
	defer func() {
		if p := recover(); p != nil {
			if _, ok := p.(blockedPanic); ok {
				blocked = true
				return
			}
			panic(p)
		}
	}()
	f()
	return
}

// observe records name=value; symbolic parts are evaluated under the
// witness model at the end of the path.
func (c *PathCtx) observe(name string, v value) {
	if i, ok := v.(iface); ok {
		v = i.v
	}
	c.obsRaw = append(c.obsRaw, rawObs{name, snapshot(v)})
}

type rawObs struct {
	name string
	v    value
}

func snapshot(v value) value {
	switch v := v.(type) {
	case []value:
		return append([]value{}, v...)
	case array:
		return append(array{}, v...)
	case structure:
		r := make(structure, len(v))
		for i := range v {
			r[i] = snapshot(v[i])
		}
		return r
	}
	return v
}

// formatObs renders an observed value exactly like the native sym.Observe does.
func formatObs(v value, ev *smt.Evaluator) string {
	switch v := v.(type) {
	case sv:
		return formatObs(constOfKind(evalU64(ev, v), v.k), ev)
	case bool:
		return fmt.Sprint(v)
	case int, int8, int16, int32, int64, uint, uint8, uint16, uint32, uint64, uintptr:
		return fmt.Sprint(v)
	case string:
		return fmt.Sprintf("%x", v)
	case sstr:
		return hexBytes([]value(v), ev)
	case []value:
		return seqString(v, ev)
	case array:
		return seqString([]value(v), ev)
	case structure:
		parts := make([]string, len(v))
		for i, e := range v {
			parts[i] = formatObs(e, ev)
		}
		return "{" + strings.Join(parts, " ") + "}"
	case iface:
		if v.t == nil {
			return "nil"
		}
		return formatObs(v.v, ev)
	case *value:
		if v == nil {
			return "nil"
		}
		return "ptr"
	}
	return fmt.Sprintf("<%T>", v)
}

func seqString(v []value, ev *smt.Evaluator) string {
	allBytes := true
	for _, e := range v {
		switch x := e.(type) {
		case uint8:
		case sv:
			if x.k != types.Uint8 {
				allBytes = false
			}
		default:
			allBytes = false
		}
	}
	if allBytes {
		return hexBytes(v, ev)
	}
	parts := make([]string, len(v))
	for i, e := range v {
		parts[i] = formatObs(e, ev)
	}
	return "[" + strings.Join(parts, " ") + "]"
}

func hexBytes(v []value, ev *smt.Evaluator) string {
	var sb strings.Builder
	for _, e := range v {
		switch x := e.(type) {
		case uint8:
			fmt.Fprintf(&sb, "%02x", x)
		case sv:
			fmt.Fprintf(&sb, "%02x", uint8(ev.Eval(x.t)))
		}
	}
	return sb.String()
}

var _ = ssa.NaiveForm

// zint is the engine's representation of sym.Z (exact integer).
type zint struct{ t *smt.Term }

func zArg(v value) *smt.Term { return v.(structure)[0].(zint).t }

// zTermOf lifts a Go integer (concrete, Int-mode or bit-vector symbolic) to an exact Int term.
func zTermOf(v value) *smt.Term {
	if x, ok := v.(sv); ok {
		if isIntTerm(x.t) {
			return x.t
		}
		unsupported("sym.Z of a bit-vector symbolic value (use sym.IntMode)")
	}
	return smt.IntConst(intOfConst(v))
}

// mutexLock / mutexUnlock keep the lock state when the harness asked for it (sym.TrackMutexes).
// state: -1 write-locked, n > 0 read-locked n times.
func mutexLock(m value, write bool) {
	if cur == nil || !cur.TrackMutex {
		return
	}
	p, ok := m.(*value)
	if !ok {
		return
	}
	if cur.mutexes == nil {
		cur.mutexes = map[*value]int{}
	}
	st := cur.mutexes[p]
	if write {
		if st != 0 {
			panic(blockedPanic{"lock of a mutex that is held"})
		}
		cur.mutexes[p] = -1
		return
	}
	if st < 0 {
		panic(blockedPanic{"read-lock of a mutex that is write-locked"})
	}
	cur.mutexes[p] = st + 1
}

func mutexUnlock(m value, write bool) {
	if cur == nil || !cur.TrackMutex {
		return
	}
	p, ok := m.(*value)
	if !ok || cur.mutexes == nil {
		return
	}
	if write {
		cur.mutexes[p] = 0
	} else if cur.mutexes[p] > 0 {
		cur.mutexes[p]--
	}
}
