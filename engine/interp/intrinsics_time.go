package interp

// Contract stubs for time.Time (values built by time.Unix, i.e. without a
// monotonic reading): Sub is the exact difference saturated to the Duration
// range, Before/After/Equal compare (seconds, nanoseconds), IsZero tests the
// zero instant.  The contract is validated against the real time package by
// the native replay of witnesses (observations of Sub results must agree).

import (
	"go/types"
	"math"
	"math/big"

	"gosym/smt"
)

func intTermOf(v value) *smt.Term {
	switch x := v.(type) {
	case sv:
		if isIntTerm(x.t) {
			return x.t
		}
		unsupported("time stubs need Int-mode (or concrete) timestamps")
	}
	return smt.IntConst(intOfConst(v))
}

// timeParts: seconds (ext) and nanoseconds (wall, no monotonic bit) of a time.Time value
func timeParts(v value) (sec, nsec *smt.Term) {
	s := v.(structure)
	if w, ok := s[0].(uint64); ok && w >= 1<<30 {
		unsupported("time stub: Time with monotonic reading or large wall field")
	}
	return intTermOf(s[1]), intTermOf(s[0])
}

func timeLess(a, b value) *smt.Term {
	as, an := timeParts(a)
	bs, bn := timeParts(b)
	return smt.Or(smt.ILt(as, bs), smt.And(smt.Eq(as, bs), smt.ILt(an, bn)))
}

func init() {
	for k, v := range map[string]externalFn{
		"(time.Time).Sub": func(fr *frame, args []value) value {
			ts, tn := timeParts(args[0])
			us, un := timeParts(args[1])
			d := smt.IAdd(smt.IMul(smt.ISub(ts, us), smt.IntConst(big.NewInt(1_000_000_000))), smt.ISub(tn, un))
			lo, hi := smt.IntConst(big.NewInt(math.MinInt64)), smt.IntConst(big.NewInt(math.MaxInt64))
			r := smt.Ite(smt.ILt(d, lo), lo, smt.Ite(smt.ILt(hi, d), hi, d))
			return fromIntTerm(r, types.Int64)
		},
		"(time.Time).Before": func(fr *frame, args []value) value { return boolVal(timeLess(args[0], args[1])) },
		"(time.Time).After":  func(fr *frame, args []value) value { return boolVal(timeLess(args[1], args[0])) },
		"(time.Time).Equal": func(fr *frame, args []value) value {
			as, an := timeParts(args[0])
			bs, bn := timeParts(args[1])
			return boolVal(smt.And(smt.Eq(as, bs), smt.Eq(an, bn)))
		},
		"(time.Time).IsZero": func(fr *frame, args []value) value {
			s, n := timeParts(args[0])
			z := smt.IntConst(big.NewInt(0))
			return boolVal(smt.And(smt.Eq(s, z), smt.Eq(n, z)))
		},
	} {
		externals[k] = v
	}
}
