package interp

// Contract stubs for time.Time (values built by time.Unix, i.e. without a
// monotonic reading): Sub is the exact difference saturated to the Duration
// range, Before/After/Equal compare (seconds, nanoseconds), IsZero tests the
// zero instant.  The contract is validated against the real time package by
// the native replay of witnesses (observations of Sub results must agree).

import (
	"go/token"
	"go/types"
	"math"
	"math/big"

	"gosym/smt"
)

func intTermOf(v value) *smt.Term {
	switch x := v.(type) {
	case sv:
		if isIntTerm(x.t) {
			return x.t
		}
		unsupported("time stubs need Int-mode (or concrete) timestamps")
	}
	return smt.IntConst(intOfConst(v))
}

// timeParts: seconds (ext) and nanoseconds (wall, no monotonic bit) of a time.Time value
func timeParts(v value) (sec, nsec *smt.Term) {
	s := v.(structure)
	if w, ok := s[0].(uint64); ok && w >= 1<<30 {
		unsupported("time stub: Time with monotonic reading or large wall field")
	}
	return intTermOf(s[1]), intTermOf(s[0])
}

func timeLess(a, b value) *smt.Term {
	as, an := timeParts(a)
	bs, bn := timeParts(b)
	return smt.Or(smt.ILt(as, bs), smt.And(smt.Eq(as, bs), smt.ILt(an, bn)))
}

func init() {
	for k, v := range map[string]externalFn{
		"(time.Time).Sub": func(fr *frame, args []value) value {
			ts, tn := timeParts(args[0])
			us, un := timeParts(args[1])
			d := smt.IAdd(smt.IMul(smt.ISub(ts, us), smt.IntConst(big.NewInt(1_000_000_000))), smt.ISub(tn, un))
			lo, hi := smt.IntConst(big.NewInt(math.MinInt64)), smt.IntConst(big.NewInt(math.MaxInt64))
			r := smt.Ite(smt.ILt(d, lo), lo, smt.Ite(smt.ILt(hi, d), hi, d))
			return fromIntTerm(r, types.Int64)
		},
		"(time.Time).Add": func(fr *frame, args []value) value {
			// exact: (sec, nsec) + d nanoseconds, nsec normalised into [0, 1e9)  (no saturation: |sec| stays far below 2^62 in the harnesses)
			ts, tn := timeParts(args[0])
			d := intTermOf(args[1])
			giga := smt.IntConst(big.NewInt(1_000_000_000))
			tot := smt.IAdd(tn, d)
			nsec := smt.IMod(tot, giga)
			sec := smt.IAdd(ts, smt.IDiv(tot, giga))
			return structure{fromIntTerm(nsec, types.Uint64), fromIntTerm(sec, types.Int64), args[0].(structure)[2]} // same location
		},
		"(time.Time).Before": func(fr *frame, args []value) value { return boolVal(timeLess(args[0], args[1])) },
		"(time.Time).After":  func(fr *frame, args []value) value { return boolVal(timeLess(args[1], args[0])) },
		"(time.Time).Equal": func(fr *frame, args []value) value {
			as, an := timeParts(args[0])
			bs, bn := timeParts(args[1])
			return boolVal(smt.And(smt.Eq(as, bs), smt.Eq(an, bn)))
		},
		"(time.Time).IsZero": func(fr *frame, args []value) value {
			s, n := timeParts(args[0])
			z := smt.IntConst(big.NewInt(0))
			return boolVal(smt.And(smt.Eq(s, z), smt.Eq(n, z)))
		},
	} {
		externals[k] = v
	}
}

// ---- harness-controlled clock, timers and condition variables ----

type timerRec struct {
	deadline value  // nanoseconds on the harness clock
	fn       value  // AfterFunc callback (nil for channel timers)
	ch       *ochan // channel timers (NewTimer): the current time is sent on C
	stopped  bool
	fired    bool
	ptr      *value
}

func nowTimeValue() value {
	ns := clockNanos()
	sec := binop(token.QUO, nil, ns, int64(1_000_000_000))
	nsec := binop(token.REM, nil, ns, int64(1_000_000_000))
	ext := binop(token.ADD, nil, sec, int64(unixToInternalSec))
	wall := conv(types.Typ[types.Uint64], types.Typ[types.Int64], nsec)
	return structure{wall, ext, (*value)(nil)}
}

func (t *timerRec) fire(fr *frame) {
	t.fired = true
	if t.ch != nil {
		if len(t.ch.buf) == 0 {
			t.ch.buf = append(t.ch.buf, nowTimeValue())
		}
		return
	}
	call(fr.i, fr, 0, t.fn, nil)
}

func timerByPtr(p *value) *timerRec {
	for _, t := range cur.timers {
		if t.ptr == p {
			return t
		}
	}
	return nil
}

func durationDue(d value) bool {
	// d <= 0 ?
	r := binop(token.LEQ, nil, d, int64(0))
	switch x := r.(type) {
	case bool:
		return x
	case sv:
		return cur.branch(x.t)
	}
	return false
}

const unixToInternalSec = 62135596800

func clockNanos() value {
	if cur.clock == nil {
		return int64(0)
	}
	return cur.clock
}

func init() {
	for k, v := range map[string]externalFn{
		// sym.SetNow(ns int64): the value time.Now() reports (nanoseconds since the Unix epoch, must be >= 0 and < 2^62)
		symPkg + "SetNow": func(fr *frame, args []value) value {
			cur.clock = args[0]
			return nil
		},
		// sym.FireTimers(): runs every armed timer whose deadline is <= the clock
		symPkg + "FireTimers": func(fr *frame, args []value) value {
			n := 0
			for _, t := range cur.timers {
				if t.stopped || t.fired {
					continue
				}
				due := binop(token.LEQ, nil, t.deadline, clockNanos())
				if dueb, ok := due.(bool); ok && !dueb {
					continue
				} else if dsv, ok := due.(sv); ok && !cur.branch(dsv.t) {
					continue
				}
				n++
				t.fire(fr)
			}
			return n
		},
		symPkg + "ArmedTimers": func(fr *frame, args []value) value {
			n := 0
			for _, t := range cur.timers {
				if !t.stopped && !t.fired {
					n++
				}
			}
			return n
		},
		symPkg + "OnYield": func(fr *frame, args []value) value {
			cur.yieldFn = args[0]
			return nil
		},
		// time.Sleep: lets the environment act (other goroutines); without an environment it is a no-op
		"time.Sleep": func(fr *frame, args []value) value {
			cur.sleeps++
			if cur.sleeps > 10000 {
				abortPath("inconclusive", "more than 10000 time.Sleep calls on one path (waiting for something that never happens)")
			}
			if cur.yieldFn != nil {
				call(fr.i, fr, 0, cur.yieldFn, []value{"sleep"})
			}
			return nil
		},
		"time.Now": func(fr *frame, args []value) value {
			// Time{wall: nsec, ext: sec + unixToInternal, loc: nil}; clock is in nanoseconds
			return nowTimeValue()
		},
		"time.Since": func(fr *frame, args []value) value {
			return externals["(time.Time).Sub"](fr, []value{nowTimeValue(), args[0]})
		},
		"math/rand.Intn": func(fr *frame, args []value) value {
			n := int(asInt64(args[0]))
			if cur.RandExtremes && n > 2 {
				return cur.choice("rand", 2) * (n - 1)
			}
			return cur.choice("rand", n)
		},
		"time.AfterFunc": func(fr *frame, args []value) value {
			dl := binop(token.ADD, nil, clockNanos(), args[0])
			tt := fr.i.prog.ImportedPackage("time").Type("Timer").Type()
			cell := zero(tt)
			p := &cell
			cur.timers = append(cur.timers, &timerRec{deadline: dl, fn: args[1], ptr: p})
			return p
		},
		"time.NewTimer": func(fr *frame, args []value) value {
			tt := fr.i.prog.ImportedPackage("time").Type("Timer").Type()
			cell := zero(tt)
			ch := &ochan{cap: 1}
			cell.(structure)[0] = ch
			p := &cell
			t := &timerRec{deadline: binop(token.ADD, nil, clockNanos(), args[0]), ch: ch, ptr: p}
			cur.timers = append(cur.timers, t)
			if durationDue(args[0]) {
				t.fire(fr)
			}
			return p
		},
		"(*time.Timer).Reset": func(fr *frame, args []value) value {
			t := timerByPtr(args[0].(*value))
			if t == nil {
				unsupported("Reset of an unknown timer")
			}
			was := !t.stopped && !t.fired
			t.stopped, t.fired = false, false
			t.deadline = binop(token.ADD, nil, clockNanos(), args[1])
			if durationDue(args[1]) {
				t.fire(fr)
			}
			return was
		},
		"(*time.Timer).Stop": func(fr *frame, args []value) value {
			p := args[0].(*value)
			for _, t := range cur.timers {
				if t.ptr == p {
					was := !t.stopped && !t.fired
					t.stopped = true
					return was
				}
			}
			return false
		},
		"(*sync.Cond).Broadcast": func(fr *frame, args []value) value { cur.condSignalled = true; return nil },
		"(*sync.Cond).Signal":    func(fr *frame, args []value) value { cur.condSignalled = true; return nil },
		// Wait: the environment (harness callback registered with sym.OnYield) acts; Wait returns once a
		// Broadcast/Signal happened.  If the environment reports that nothing will ever happen any more,
		// the waiter is blocked forever (blockedPanic, caught by sym.RunUntilBlocked).
		"(*sync.Cond).Wait": func(fr *frame, args []value) value {
			cur.condSignalled = false
			for round := 0; round < 8; round++ {
				if cur.yieldFn == nil {
					panic(blockedPanic{"sync.Cond.Wait with no environment"})
				}
				r := call(fr.i, fr, 0, cur.yieldFn, []value{"cond"})
				if cur.condSignalled {
					cur.condSignalled = false
					return nil
				}
				if rb, ok := r.(bool); ok && !rb {
					panic(blockedPanic{"sync.Cond.Wait: never signalled"})
				}
			}
			abortPath("assume", "environment made too many silent steps")
			return nil
		},
	} {
		externals[k] = v
	}
}
