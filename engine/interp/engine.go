package interp

// Engine: runs one harness function along one decision prefix.

import (
	"fmt"
	"go/token"
	"go/types"
	"os"
	"runtime"
	"runtime/debug"
	"sort"
	"strings"
	"time"

	"gosym/smt"

	"golang.org/x/tools/go/ssa"
)

type Engine struct {
	Prog    *ssa.Program
	ModPath string
	Solver  *smt.Solver
	Sizes   types.Sizes
	Trace   bool
}

type PathOpts struct {
	MaxSteps     int64
	MaxDecisions int
	Known        []string
	LogQueries   bool
	WantWitness  bool
}

type PathResult struct {
	Status       string            `json:"status"` // ok | assume | violation | panic | inconclusive | blocked
	Msg          string            `json:"msg,omitempty"`
	Decisions    string            `json:"decisions"`
	Pending      []Pending         `json:"pending,omitempty"`
	Violations   []Violation       `json:"violations,omitempty"`
	Reached      []string          `json:"reached,omitempty"`
	Observations []Observation     `json:"observations,omitempty"`
	Witness      map[string]uint64 `json:"witness,omitempty"`
	Funcs        map[string]int64  `json:"funcs,omitempty"`
	Stubs        []string          `json:"stubs,omitempty"`
	Steps        int64             `json:"steps"`
	Forks        int               `json:"forks"`
	NSat         int               `json:"nsat"`
	NUnsat       int               `json:"nunsat"`
	NUnknown     int               `json:"nunknown"`
	SolverMs     float64           `json:"solver_ms"`
	WallMs       float64           `json:"wall_ms"`
	QueryLog     []string          `json:"query_log,omitempty"`
	Inputs       []string          `json:"inputs,omitempty"`
}

func (e *Engine) newInterp() *interpreter {
	i := &interpreter{
		prog:       e.Prog,
		globals:    make(map[*ssa.Global]*value),
		sizes:      e.Sizes,
		goroutines: 1,
		modPath:    e.ModPath,
		pkgInited:  make(map[*ssa.Package]bool),
	}
	if e.Trace {
		i.mode |= EnableTracing
	}
	runtimePkg := i.prog.ImportedPackage("runtime")
	if runtimePkg == nil {
		panic("ssa.Program doesn't include runtime package")
	}
	i.runtimeErrorString = runtimePkg.Type("errorString").Object().Type()
	initReflect(i)
	return i
}

// RunPath executes harness fn (a niladic function) along prefix.
func (e *Engine) RunPath(fn *ssa.Function, prefix string, model map[string]uint64, intModel map[string]string, opts PathOpts) (res *PathResult) {
	t0 := time.Now()
	s := e.Solver
	s.Reset()
	s0sat, s0unsat, s0unk, s0time := s.NSat, s.NUnsat, s.NUnknown, s.Time
	c := newPathCtx(s, prefix, model, intModel)
	if opts.MaxSteps > 0 {
		c.MaxSteps = opts.MaxSteps
	}
	if opts.MaxDecisions > 0 {
		c.MaxDecisions = opts.MaxDecisions
	}
	for _, k := range opts.Known {
		c.Known[k] = true
	}
	c.LogQueries = opts.LogQueries
	cur = c
	res = &PathResult{}
	i := e.newInterp()

	finish := func() {
		res.Decisions = string(c.decisions)
		res.Pending = c.Pending
		res.Violations = c.Violations
		res.Reached = sortedKeys(c.Reached)
		res.Stubs = sortedKeys(c.Stubs)
		res.Steps = c.steps
		res.Forks = c.forkCount
		res.NSat, res.NUnsat, res.NUnknown = s.NSat-s0sat, s.NUnsat-s0unsat, s.NUnknown-s0unk
		res.SolverMs = float64(s.Time-s0time) / 1e6
		res.QueryLog = c.QueryLog
		res.Funcs = map[string]int64{}
		for f, n := range c.Funcs {
			if f.Pkg != nil && i.isOwn(f.Pkg) || (f.Pkg == nil && strings.Contains(f.String(), e.ModPath)) {
				res.Funcs[f.String()] += n
			}
		}
		for _, in := range c.inputs {
			res.Inputs = append(res.Inputs, in.name)
		}
		res.WallMs = float64(time.Since(t0)) / 1e6
	}

	defer func() {
		p := recover()
		switch p := p.(type) {
		case nil:
			res.Status = "ok"
		case pathEnd:
			res.Status, res.Msg = p.status, p.msg
		case blockedPanic:
			res.Status, res.Msg = "blocked", p.what
		default:
			// uncaught target panic (or interpreter fault): a violation candidate
			msg := panicString(p)
			if _, ok := p.(targetPanic); !ok {
				if _, ok := p.(runtimeError); !ok {
					if re, ok := p.(runtime.Error); ok {
						msg = "interp: " + re.Error() + "\n" + string(debug.Stack())
					}
				}
			}
			res.Status, res.Msg = "panic", msg
			func() {
				defer func() {
					if q := recover(); q != nil {
						res.Status = "inconclusive"
						res.Msg = fmt.Sprintf("while recording panic %q: %v", msg, q)
					}
				}()
				c.ensureModel()
				c.recordViolation("panic", "uncaught panic: "+firstLine(msg), "", c.model)
			}()
		}
		// witness + observations for completed paths
		if res.Status == "ok" && (opts.WantWitness || len(c.obsRaw) > 0) {
			func() {
				defer func() {
					if q := recover(); q != nil {
						if pe, ok := q.(pathEnd); ok {
							res.Status, res.Msg = pe.status, pe.msg
						} else {
							panic(q)
						}
					}
				}()
				c.ensureModel()
				res.Witness = c.inputsFromModel(c.model)
				for _, o := range c.obsRaw {
					res.Observations = append(res.Observations, Observation{o.name, formatObs(o.v, c.eval)})
				}
			}()
		}
		finish()
		cur = nil
	}()

	// run package initialisers of the code under test, then the harness
	if fn.Pkg != nil {
		if initFn := fn.Pkg.Func("init"); initFn != nil {
			call(i, nil, token.NoPos, initFn, nil)
		}
	}
	call(i, nil, token.NoPos, fn, nil)
	return
}

func firstLine(s string) string {
	if i := strings.IndexByte(s, '\n'); i >= 0 {
		return s[:i]
	}
	return s
}

func SortedFuncs(m map[string]int64) []string {
	r := make([]string, 0, len(m))
	for k := range m {
		r = append(r, k)
	}
	sort.Strings(r)
	return r
}

var _ = os.Stderr
