package interp

import (
	"fmt"
	"go/token"
	"go/types"
	"os"

	"gosym/smt"
)

// hasSym reports whether v is (shallowly) a symbolic scalar or string.
func hasSym(v value) bool {
	switch v.(type) {
	case sv, sstr:
		return true
	}
	return false
}

// deepSym reports whether v contains any symbolic part (by value, not through pointers).
func deepSym(v value) bool {
	switch v := v.(type) {
	case sv, sstr:
		return true
	case structure:
		for _, e := range v {
			if deepSym(e) {
				return true
			}
		}
	case array:
		for _, e := range v {
			if deepSym(e) {
				return true
			}
		}
	case iface:
		return deepSym(v.v)
	case tuple:
		for _, e := range v {
			if deepSym(e) {
				return true
			}
		}
	}
	return false
}

func strBytes(v value) []value {
	switch v := v.(type) {
	case string:
		r := make([]value, len(v))
		for i := 0; i < len(v); i++ {
			r[i] = v[i]
		}
		return r
	case sstr:
		return []value(v)
	}
	panic(fmt.Sprintf("strBytes: %T", v))
}

func normalizeStr(b []value) value {
	for _, e := range b {
		if _, ok := e.(sv); ok {
			cp := make(sstr, len(b))
			copy(cp, b)
			return cp
		}
	}
	bs := make([]byte, len(b))
	for i, e := range b {
		bs[i] = e.(uint8)
	}
	return string(bs)
}

func strLen(v value) int {
	switch v := v.(type) {
	case string:
		return len(v)
	case sstr:
		return len(v)
	}
	panic(fmt.Sprintf("strLen: %T", v))
}

func bytesEqTerm(a, b []value) *smt.Term {
	if len(a) != len(b) {
		return smt.False
	}
	r := smt.True
	for i := range a {
		r = smt.And(r, smt.Eq(toTerm(a[i]), toTerm(b[i])))
		if r.IsFalse() {
			return r
		}
	}
	return r
}

// bytesLessTerm: lexicographic a < b.
func bytesLessTerm(a, b []value) *smt.Term {
	n := len(a)
	if len(b) < n {
		n = len(b)
	}
	less := smt.Bool(len(a) < len(b))
	for i := n - 1; i >= 0; i-- {
		x, y := toTerm(a[i]), toTerm(b[i])
		less = smt.Ite(smt.Eq(x, y), less, smt.ULt(x, y))
	}
	return less
}

// bytesCompareTerm returns an int-kinded value in {-1,0,1}.
func bytesCompareValue(a, b []value) value {
	lt := bytesLessTerm(a, b)
	gt := bytesLessTerm(b, a)
	t := smt.Ite(lt, smt.Const(64, ^uint64(0)), smt.Ite(gt, smt.Const(64, 1), smt.Const(64, 0)))
	return fromTerm(t, types.Int)
}

// eqTerm builds the Go equality x == y for type t as a Bool term.
func eqTerm(t types.Type, x, y value) *smt.Term {
	switch x := x.(type) {
	case sv:
		a, b := termPair(x, y)
		return smt.Eq(a, b)
	case bool, int, int8, int16, int32, int64, uint, uint8, uint16, uint32, uint64, uintptr:
		if _, ok := y.(sv); ok {
			a, b := termPair(x, y)
			return smt.Eq(a, b)
		}
		return smt.Bool(x == y)
	case float32:
		return smt.Bool(x == y.(float32))
	case float64:
		return smt.Bool(x == y.(float64))
	case complex64:
		return smt.Bool(x == y.(complex64))
	case complex128:
		return smt.Bool(x == y.(complex128))
	case string:
		if ys, ok := y.(string); ok {
			return smt.Bool(x == ys)
		}
		return bytesEqTerm(strBytes(x), strBytes(y))
	case sstr:
		return bytesEqTerm(strBytes(x), strBytes(y))
	case *value:
		return smt.Bool(x == y.(*value))
	case *ochan:
		return smt.Bool(x == y.(*ochan))
	case structure:
		ys := y.(structure)
		st := t.Underlying().(*types.Struct)
		r := smt.True
		for i, n := 0, st.NumFields(); i < n; i++ {
			f := st.Field(i)
			if f.Name() == "_" {
				continue
			}
			r = smt.And(r, eqTerm(f.Type(), x[i], ys[i]))
			if r.IsFalse() {
				return r
			}
		}
		return r
	case array:
		ys := y.(array)
		et := t.Underlying().(*types.Array).Elem()
		r := smt.True
		for i := range x {
			r = smt.And(r, eqTerm(et, x[i], ys[i]))
			if r.IsFalse() {
				return r
			}
		}
		return r
	case iface:
		yi := y.(iface)
		if !sameType(x.t, yi.t) {
			return smt.False
		}
		if x.t == nil {
			return smt.True
		}
		return eqTerm(x.t, x.v, yi.v)
	case rtype:
		return smt.Bool(x.eq(t, y))
	}
	panic(fmt.Sprintf("comparing uncomparable type %s (%T)", t, x))
}

func shiftCount(y value, w int) *smt.Term {
	yk, _ := kindOf(y)
	yt := toTerm(y)
	if kindSigned(yk) {
		neg := smt.SLt(yt, smt.Const(yt.W, 0))
		if cur.branch(neg) {
			panic(runtimeError("negative shift amount"))
		}
	}
	if yt.W == w {
		return yt
	}
	if yt.W < w {
		return smt.ZExt(yt, w)
	}
	big := smt.ULe(smt.Const(yt.W, uint64(w)), yt)
	return smt.Ite(big, smt.Const(w, uint64(w)), smt.Extract(yt, w-1, 0))
}

// UDivAux: encode unsigned division by a constant with auxiliary variables.
var UDivAux = os.Getenv("GOSYM_UDIVAUX") != ""

// symBinop handles binary operators when at least one operand is symbolic.
func symBinop(op token.Token, t types.Type, x, y value) value {
	// strings
	switch x.(type) {
	case string, sstr:
		a, b := strBytes(x), strBytes(y)
		switch op {
		case token.ADD:
			return normalizeStr(append(append([]value{}, a...), b...))
		case token.EQL:
			return boolVal(bytesEqTerm(a, b))
		case token.NEQ:
			return boolVal(smt.Not(bytesEqTerm(a, b)))
		case token.LSS:
			return boolVal(bytesLessTerm(a, b))
		case token.GTR:
			return boolVal(bytesLessTerm(b, a))
		case token.LEQ:
			return boolVal(smt.Not(bytesLessTerm(b, a)))
		case token.GEQ:
			return boolVal(smt.Not(bytesLessTerm(a, b)))
		}
		panic(fmt.Sprintf("symBinop: bad string op %s", op))
	}
	xk, okx := kindOf(x)
	if !okx {
		panic(fmt.Sprintf("symBinop: unsupported operand %T %s %T", x, op, y))
	}
	if xk != types.Bool {
		if ixt, iyt := termPair(x, y); isIntTerm(ixt) {
			return intBinop(op, xk, ixt, iyt, y)
		}
	}
	xt := toTerm(x)
	if op == token.SHL || op == token.SHR {
		c := shiftCount(y, xt.W)
		switch {
		case op == token.SHL:
			return fromTerm(smt.Shl(xt, c), xk)
		case kindSigned(xk):
			return fromTerm(smt.AShr(xt, c), xk)
		default:
			return fromTerm(smt.LShr(xt, c), xk)
		}
	}
	yt := toTerm(y)
	if xk == types.Bool {
		switch op {
		case token.EQL:
			return boolVal(smt.Eq(xt, yt))
		case token.NEQ:
			return boolVal(smt.Not(smt.Eq(xt, yt)))
		case token.AND, token.LAND:
			return boolVal(smt.And(xt, yt))
		case token.OR, token.LOR:
			return boolVal(smt.Or(xt, yt))
		}
		panic(fmt.Sprintf("symBinop: bad bool op %s", op))
	}
	signed := kindSigned(xk)
	switch op {
	case token.ADD:
		return fromTerm(smt.Add(xt, yt), xk)
	case token.SUB:
		return fromTerm(smt.Sub(xt, yt), xk)
	case token.MUL:
		return fromTerm(smt.Mul(xt, yt), xk)
	case token.QUO, token.REM:
		if cur.branch(smt.Eq(yt, smt.Const(yt.W, 0))) {
			panic(runtimeError("integer divide by zero"))
		}
		if UDivAux && !signed && yt.IsConst() && yt.V > 1 && !xt.IsConst() {
			// division by a constant: quotient/remainder as auxiliary variables with the
			// defining constraint x = q*c + r, r < c (a multiplier by a constant instead of a divider)
			q, r := cur.udivConst(xt, yt.V)
			if op == token.QUO {
				return fromTerm(q, xk)
			}
			return fromTerm(r, xk)
		}
		switch {
		case op == token.QUO && signed:
			return fromTerm(smt.SDiv(xt, yt), xk)
		case op == token.QUO:
			return fromTerm(smt.UDiv(xt, yt), xk)
		case signed:
			return fromTerm(smt.SRem(xt, yt), xk)
		default:
			return fromTerm(smt.URem(xt, yt), xk)
		}
	case token.AND:
		return fromTerm(smt.BAnd(xt, yt), xk)
	case token.OR:
		return fromTerm(smt.BOr(xt, yt), xk)
	case token.XOR:
		return fromTerm(smt.BXor(xt, yt), xk)
	case token.AND_NOT:
		return fromTerm(smt.BAnd(xt, smt.BNot(yt)), xk)
	case token.EQL:
		return boolVal(smt.Eq(xt, yt))
	case token.NEQ:
		return boolVal(smt.Not(smt.Eq(xt, yt)))
	case token.LSS:
		if signed {
			return boolVal(smt.SLt(xt, yt))
		}
		return boolVal(smt.ULt(xt, yt))
	case token.LEQ:
		if signed {
			return boolVal(smt.SLe(xt, yt))
		}
		return boolVal(smt.ULe(xt, yt))
	case token.GTR:
		if signed {
			return boolVal(smt.SLt(yt, xt))
		}
		return boolVal(smt.ULt(yt, xt))
	case token.GEQ:
		if signed {
			return boolVal(smt.SLe(yt, xt))
		}
		return boolVal(smt.ULe(yt, xt))
	}
	panic(fmt.Sprintf("symBinop: invalid op %T %s %T", x, op, y))
}

func symUnop(op token.Token, x sv) value {
	if isIntTerm(x.t) {
		return intUnop(op, x)
	}
	switch op {
	case token.SUB:
		return fromTerm(smt.Neg(x.t), x.k)
	case token.NOT:
		return boolVal(smt.Not(x.t))
	case token.XOR:
		return fromTerm(smt.BNot(x.t), x.k)
	}
	panic(fmt.Sprintf("symUnop: invalid op %s", op))
}

// symConvInt converts a symbolic integer to basic kind dst.
func symConvInt(x sv, dst types.BasicKind) value {
	if isIntTerm(x.t) {
		return intConv(x, dst)
	}
	switch dst {
	case types.Float32, types.Float64, types.String, types.Complex64, types.Complex128:
		unsupported("conversion of symbolic integer to kind %d", dst)
	}
	if dst == types.UnsafePointer {
		unsupported("conversion of symbolic integer to unsafe.Pointer")
	}
	dw := kindWidth(dst)
	if dw == 0 {
		panic("symConvInt: bool")
	}
	sw := x.t.W
	var t *smt.Term
	switch {
	case dw == sw:
		t = x.t
	case dw < sw:
		t = smt.Extract(x.t, dw-1, 0)
	case kindSigned(x.k):
		t = smt.SExt(x.t, dw)
	default:
		t = smt.ZExt(x.t, dw)
	}
	return fromTerm(t, dst)
}

// iteValue builds c ? a : b for scalar or aggregate-of-scalar values of equal shape.
func iteValue(c *smt.Term, a, b value) value {
	if c.IsConst() {
		if c.V == 1 {
			return a
		}
		return b
	}
	switch av := a.(type) {
	case structure:
		bv := b.(structure)
		r := make(structure, len(av))
		for i := range av {
			r[i] = iteValue(c, av[i], bv[i])
		}
		return r
	case array:
		bv := b.(array)
		r := make(array, len(av))
		for i := range av {
			r[i] = iteValue(c, av[i], bv[i])
		}
		return r
	case string, sstr:
		ab, bb := strBytes(a), strBytes(b)
		if len(ab) != len(bb) {
			if cur.branch(c) {
				return a
			}
			return b
		}
		r := make([]value, len(ab))
		for i := range ab {
			r[i] = iteValue(c, ab[i], bb[i])
		}
		return normalizeStr(r)
	}
	ak, ok := kindOf(a)
	if !ok {
		// pointers, interfaces, slices...: identical values need no choice
		if sameConcrete(a, b) {
			return a
		}
		if cur.branch(c) {
			return a
		}
		return b
	}
	at, bt := termPair(a, b)
	if cur != nil && cur.IntMode && ak != types.Bool && !isIntTerm(at) && at.IsConst() && bt.IsConst() {
		// both alternatives concrete: in Int mode the choice must be an Int term too
		at, bt = smt.IntConst(intOfConst(a)), smt.IntConst(intOfConst(b))
	}
	return fromTerm(smt.Ite(c, at, bt), ak)
}

func sameConcrete(a, b value) (eq bool) {
	defer func() {
		if recover() != nil {
			eq = false
		}
	}()
	switch a.(type) {
	case *value, *ochan, *omap, *closure:
		return a == b
	}
	return false
}

func smtConstInt(v uint64) *smt.Term { return smt.Const(64, v) }
func smtBit(t *smt.Term, i int) *smt.Term {
	return smt.Eq(smt.Extract(t, i, i), smt.Const(1, 1))
}
func smtIte(c, a, b *smt.Term) *smt.Term { return smt.Ite(c, a, b) }
