package interp

// Int mode: symbolic integers as mathematical SMT Ints with explicit range
// constraints.  Every + - * (and narrowing conversion) first asks the solver
// whether the exact result can leave the range of its Go type under the
// current path condition; if not, the exact linear term is kept (so weight
// sums and comparisons are decided by linear integer arithmetic instead of
// bit-blasting), otherwise Go's wrap-around is encoded with mod 2^w and the
// overflow is recorded (harnesses may assert that none occurred).

import (
	"fmt"
	"go/token"
	"go/types"
	"math/big"

	"gosym/smt"
)

func isIntTerm(t *smt.Term) bool { return t.W == smt.SortInt }

func pow2(w int) *big.Int { return new(big.Int).Lsh(big.NewInt(1), uint(w)) }

func kindRange(k types.BasicKind) (lo, hi *big.Int) {
	w := kindWidth(k)
	if kindSigned(k) {
		h := pow2(w - 1)
		return new(big.Int).Neg(h), new(big.Int).Sub(h, big.NewInt(1))
	}
	return big.NewInt(0), new(big.Int).Sub(pow2(w), big.NewInt(1))
}

// intOfConst gives the mathematical value of a concrete Go integer.
func intOfConst(v value) *big.Int {
	k, _ := kindOf(v)
	if kindSigned(k) {
		return big.NewInt(asInt64(v))
	}
	return new(big.Int).SetUint64(uint64(asInt64(v)))
}

// uint64OfInt: two's complement image of a mathematical value in kind k.
func uint64OfInt(x *big.Int, k types.BasicKind) uint64 {
	w := kindWidth(k)
	m := new(big.Int).Mod(x, pow2(w)) // Euclidean: non-negative
	return m.Uint64()
}

// termPair returns terms of one sort for two operands (lifting constants to Int when needed).
func termPair(x, y value) (*smt.Term, *smt.Term) {
	xs, xsym := x.(sv)
	ys, ysym := y.(sv)
	xi := xsym && isIntTerm(xs.t)
	yi := ysym && isIntTerm(ys.t)
	if !xi && !yi {
		return toTerm(x), toTerm(y)
	}
	var xt, yt *smt.Term
	switch {
	case xi:
		xt = xs.t
	case xsym:
		unsupported("mixing Int-mode and bit-vector symbolic values")
	default:
		xt = smt.IntConst(intOfConst(x))
	}
	switch {
	case yi:
		yt = ys.t
	case ysym:
		unsupported("mixing Int-mode and bit-vector symbolic values")
	default:
		yt = smt.IntConst(intOfConst(y))
	}
	return xt, yt
}

// fromIntTerm wraps an Int term of kind k, normalising constants.
func fromIntTerm(t *smt.Term, k types.BasicKind) value {
	if t.IsConst() {
		return constOfKind(uint64OfInt(t.BI, k), k)
	}
	return sv{t, k}
}

// feasible asks (without forking) whether pc ∧ t is satisfiable.
func (c *PathCtx) feasible(t *smt.Term) bool {
	if t.IsConst() {
		return t.V == 1
	}
	if v, ok := c.memoGet(t); ok {
		return v
	}
	if mv, ok := c.modelSays(t); ok && mv {
		return true
	}
	r, _ := c.check(t)
	if r == smt.Unsat {
		// remember: t is false on this path (no solver assertion needed: it is implied)
		c.memoSet(t, false)
	}
	return r == smt.Sat
}

// wrapInt brings the exact result t into the range of kind k.
func wrapInt(t *smt.Term, k types.BasicKind) *smt.Term {
	lo, hi := kindRange(k)
	if t.IsConst() {
		if t.BI.Cmp(lo) >= 0 && t.BI.Cmp(hi) <= 0 {
			return t
		}
		v := uint64OfInt(t.BI, k)
		if kindSigned(k) {
			return smt.IntConst(big.NewInt(sx64(v, kindWidth(k))))
		}
		return smt.IntConst(new(big.Int).SetUint64(v))
	}
	out := smt.Or(smt.ILt(t, smt.IntConst(lo)), smt.ILt(smt.IntConst(hi), t))
	if !cur.feasible(out) {
		return t
	}
	cur.Overflows++
	w := kindWidth(k)
	m := smt.IntConst(pow2(w))
	if kindSigned(k) {
		h := smt.IntConst(pow2(w - 1))
		return smt.ISub(smt.IMod(smt.IAdd(t, h), m), h)
	}
	return smt.IMod(t, m)
}

func sx64(v uint64, w int) int64 {
	if w >= 64 {
		return int64(v)
	}
	if v&(1<<uint(w-1)) != 0 {
		return int64(v | ^((uint64(1) << uint(w)) - 1))
	}
	return int64(v)
}

func intBinop(op token.Token, xk types.BasicKind, xt, yt *smt.Term, y value) value {
	signed := kindSigned(xk)
	zero := smt.IntConst(big.NewInt(0))
	switch op {
	case token.ADD:
		return fromIntTerm(wrapInt(smt.IAdd(xt, yt), xk), xk)
	case token.SUB:
		return fromIntTerm(wrapInt(smt.ISub(xt, yt), xk), xk)
	case token.MUL:
		return fromIntTerm(wrapInt(smt.IMul(xt, yt), xk), xk)
	case token.QUO, token.REM:
		if cur.branch(smt.Eq(yt, zero)) {
			panic(runtimeError("integer divide by zero"))
		}
		var q *smt.Term
		if !signed {
			q = smt.IDiv(xt, yt)
		} else {
			// Go truncates toward zero
			ax := smt.Ite(smt.ILt(xt, zero), smt.ISub(zero, xt), xt)
			ay := smt.Ite(smt.ILt(yt, zero), smt.ISub(zero, yt), yt)
			aq := smt.IDiv(ax, ay)
			neg := smt.Not(smt.Eq(smt.ILt(xt, zero), smt.ILt(yt, zero)))
			q = wrapInt(smt.Ite(neg, smt.ISub(zero, aq), aq), xk) // MinInt / -1 wraps
		}
		if op == token.QUO {
			return fromIntTerm(q, xk)
		}
		return fromIntTerm(wrapInt(smt.ISub(xt, smt.IMul(q, yt)), xk), xk)
	case token.EQL:
		return boolVal(smt.Eq(xt, yt))
	case token.NEQ:
		return boolVal(smt.Not(smt.Eq(xt, yt)))
	case token.LSS:
		return boolVal(smt.ILt(xt, yt))
	case token.LEQ:
		return boolVal(smt.ILe(xt, yt))
	case token.GTR:
		return boolVal(smt.ILt(yt, xt))
	case token.GEQ:
		return boolVal(smt.ILe(yt, xt))
	case token.AND:
		// only masks 2^k-1 on unsigned values
		if !signed && yt.IsConst() {
			m := new(big.Int).Add(yt.BI, big.NewInt(1))
			if m.Sign() > 0 && new(big.Int).And(m, yt.BI).Sign() == 0 {
				return fromIntTerm(smt.IMod(xt, smt.IntConst(m)), xk)
			}
		}
	case token.SHL, token.SHR:
		if yt.IsConst() && yt.BI.IsInt64() && yt.BI.Int64() >= 0 && yt.BI.Int64() < 64 {
			p := smt.IntConst(pow2(int(yt.BI.Int64())))
			if op == token.SHL {
				return fromIntTerm(wrapInt(smt.IMul(xt, p), xk), xk)
			}
			return fromIntTerm(smt.IDiv(xt, p), xk) // floor: correct for unsigned and for arithmetic shift of signed
		}
	}
	unsupported("operator %s on Int-mode symbolic values", op)
	return nil
}

func intUnop(op token.Token, x sv) value {
	zero := smt.IntConst(big.NewInt(0))
	switch op {
	case token.SUB:
		return fromIntTerm(wrapInt(smt.ISub(zero, x.t), x.k), x.k)
	case token.XOR:
		if kindSigned(x.k) {
			return fromIntTerm(smt.ISub(smt.ISub(zero, x.t), smt.IntConst(big.NewInt(1))), x.k)
		}
		_, hi := kindRange(x.k)
		return fromIntTerm(smt.ISub(smt.IntConst(hi), x.t), x.k)
	}
	unsupported("unary %s on Int-mode symbolic value", op)
	return nil
}

func intConv(x sv, dst types.BasicKind) value {
	switch dst {
	case types.Float32, types.Float64, types.String, types.Complex64, types.Complex128, types.UnsafePointer:
		unsupported("conversion of Int-mode symbolic integer to kind %d", dst)
	}
	return fromIntTerm(wrapInt(x.t, dst), dst)
}

// newIntInput declares an Int-sorted input with its range constraint.
func (c *PathCtx) newIntInput(name string, k types.BasicKind) value {
	if i, ok := c.inputByName[name]; ok {
		in := c.inputs[i]
		return sv{in.t, k}
	}
	t := smt.Var(name, smt.SortInt)
	c.inputByName[name] = len(c.inputs)
	c.inputs = append(c.inputs, inputVar{name, k, t})
	lo, hi := kindRange(k)
	c.assume(smt.And(smt.ILe(smt.IntConst(lo), t), smt.ILe(t, smt.IntConst(hi))))
	return sv{t, k}
}

// eqConst builds x == c for a term of either sort.
func eqConst(t *smt.Term, k types.BasicKind, c uint64) *smt.Term {
	if isIntTerm(t) {
		if kindSigned(k) {
			return smt.Eq(t, smt.IntConst(big.NewInt(sx64(c, kindWidth(k)))))
		}
		return smt.Eq(t, smt.IntConst(new(big.Int).SetUint64(c)))
	}
	return smt.Eq(t, smt.Const(t.W, c))
}

// evalU64 evaluates a symbolic scalar under the evaluator as the two's complement image.
func evalU64(e *smt.Evaluator, x sv) uint64 {
	if isIntTerm(x.t) {
		return uint64OfInt(e.EvalInt(x.t), x.k)
	}
	return e.Eval(x.t)
}

var _ = fmt.Sprintf
