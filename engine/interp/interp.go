// Copyright 2013 The Go Authors. All rights reserved.
// Use of this source code is governed by a BSD-style
// license that can be found in the LICENSE file.

// Package ssa/interp defines an interpreter for the SSA
// representation of Go programs.
//
// This interpreter is provided as an adjunct for testing the SSA
// construction algorithm.  Its purpose is to provide a minimal
// metacircular implementation of the dynamic semantics of each SSA
// instruction.  It is not, and will never be, a production-quality Go
// interpreter.
//
// The following is a partial list of Go features that are currently
// unsupported or incomplete in the interpreter.
//
// * Unsafe operations, including all uses of unsafe.Pointer, are
// impossible to support given the "boxed" value representation we
// have chosen.
//
// * The reflect package is only partially implemented.
//
// * The "testing" package is no longer supported because it
// depends on low-level details that change too often.
//
// * "sync/atomic" operations are not atomic due to the "boxed" value
// representation: it is not possible to read, modify and write an
// interface value atomically. As a consequence, Mutexes are currently
// broken.
//
// * recover is only partially implemented.  Also, the interpreter
// makes no attempt to distinguish target panics from interpreter
// crashes.
//
// * the sizes of the int, uint and uintptr types in the target
// program are assumed to be the same as those of the interpreter
// itself.
//
// * all values occupy space, even those of types defined by the spec
// to have zero size, e.g. struct{}.  This can cause asymptotic
// performance degradation.
//
// * os.Exit is implemented using panic, causing deferred functions to
// run.
package interp // import "golang.org/x/tools/go/ssa/interp"

import (
	"fmt"
	"go/token"
	"go/types"
	"log"
	"os"
	"runtime"
	"slices"
	"strings"
	_ "unsafe"

	"golang.org/x/tools/go/ssa"
)

type continuation int

const (
	kNext continuation = iota
	kReturn
	kJump
)

// Mode is a bitmask of options affecting the interpreter.
type Mode uint

const (
	DisableRecover Mode = 1 << iota // Disable recover() in target programs; show interpreter crash instead.
	EnableTracing                   // Print a trace of all instructions as they are interpreted.
)

type methodSet map[string]*ssa.Function

// State shared between all interpreted goroutines.
type interpreter struct {
	osArgs             []value                // the value of os.Args
	prog               *ssa.Program           // the SSA program
	globals            map[*ssa.Global]*value // addresses of global variables (immutable)
	mode               Mode                   // interpreter options
	reflectPackage     *ssa.Package           // the fake reflect package
	errorMethods       methodSet              // the method set of reflect.error, which implements the error interface.
	rtypeMethods       methodSet              // the method set of rtype, which implements the reflect.Type interface.
	runtimeErrorString types.Type             // the runtime.errorString type
	sizes              types.Sizes            // the effective type-sizing function
	goroutines         int32                  // atomically updated
	modPath            string                 // module path of the code under test (its package inits run eagerly)
	pkgInited          map[*ssa.Package]bool  // foreign packages whose init ran lazily
}

type deferred struct {
	fn    value
	args  []value
	instr *ssa.Defer
	tail  *deferred
}

type frame struct {
	i                *interpreter
	caller           *frame
	fn               *ssa.Function
	block, prevBlock *ssa.BasicBlock
	env              []value // dynamic values of SSA variables (indexed by info.idx)
	info             *fnInfo
	locals           []value
	defers           *deferred
	result           value
	panicking        bool
	panic            interface{}
	phitemps         []value // temporaries for parallel phi assignment
}

func (fr *frame) get(key ssa.Value) value {
	switch key := key.(type) {
	case nil:
		// Hack; simplifies handling of optional attributes
		// such as ssa.Slice.{Low,High}.
		return nil
	case *ssa.Function, *ssa.Builtin:
		return key
	case *ssa.Const:
		return constValue(key)
	case *ssa.Global:
		return fr.i.global(key)
	}
	if j, ok := fr.info.idx[key]; ok {
		if r := fr.env[j]; r != nil {
			return r
		}
	}
	panic(fmt.Sprintf("get: no value for %T: %v", key, key.Name()))
}

// runDefer runs a deferred call d.
// It always returns normally, but may set or clear fr.panic.
func (fr *frame) runDefer(d *deferred) {
	if fr.i.mode&EnableTracing != 0 {
		fmt.Fprintf(os.Stderr, "%s: invoking deferred function call\n",
			fr.i.prog.Fset.Position(d.instr.Pos()))
	}
	var ok bool
	defer func() {
		if !ok {
			// Deferred call created a new state of panic.
			p := recover()
			if isEnginePanic(p) {
				panic(p)
			}
			fr.panicking = true
			fr.panic = p
		}
	}()
	call(fr.i, fr, d.instr.Pos(), d.fn, d.args)
	ok = true
}

// runDefers executes fr's deferred function calls in LIFO order.
//
// On entry, fr.panicking indicates a state of panic; if
// true, fr.panic contains the panic value.
//
// On completion, if a deferred call started a panic, or if no
// deferred call recovered from a previous state of panic, then
// runDefers itself panics after the last deferred call has run.
//
// If there was no initial state of panic, or it was recovered from,
// runDefers returns normally.
func (fr *frame) runDefers() {
	for d := fr.defers; d != nil; d = d.tail {
		fr.runDefer(d)
	}
	fr.defers = nil
	if fr.panicking {
		panic(fr.panic) // new panic, or still panicking
	}
}

// lookupMethod returns the method set for type typ, which may be one
// of the interpreter's fake types.
func lookupMethod(i *interpreter, typ types.Type, meth *types.Func) *ssa.Function {
	switch typ {
	case rtypeType:
		return i.rtypeMethods[meth.Id()]
	case errorType:
		return i.errorMethods[meth.Id()]
	}
	return i.prog.LookupMethod(typ, meth.Pkg(), meth.Name())
}

// visitInstr interprets a single ssa.Instruction within the activation
// record frame.  It returns a continuation value indicating where to
// read the next instruction from.
func visitInstr(fr *frame, instr ssa.Instruction) continuation {
	switch instr := instr.(type) {
	case *ssa.DebugRef:
		// no-op

	case *ssa.UnOp:
		fr.env[fr.info.idx[instr]] = unop(instr, fr.get(instr.X))

	case *ssa.BinOp:
		fr.env[fr.info.idx[instr]] = binop(instr.Op, instr.X.Type(), fr.get(instr.X), fr.get(instr.Y))

	case *ssa.Call:
		fn, args := prepareCall(fr, &instr.Call)
		fr.env[fr.info.idx[instr]] = call(fr.i, fr, instr.Pos(), fn, args)

	case *ssa.ChangeInterface:
		fr.env[fr.info.idx[instr]] = fr.get(instr.X)

	case *ssa.ChangeType:
		fr.env[fr.info.idx[instr]] = fr.get(instr.X) // (can't fail)

	case *ssa.Convert:
		fr.env[fr.info.idx[instr]] = conv(instr.Type(), instr.X.Type(), fr.get(instr.X))

	case *ssa.SliceToArrayPointer:
		fr.env[fr.info.idx[instr]] = sliceToArrayPointer(instr.Type(), instr.X.Type(), fr.get(instr.X))

	case *ssa.MakeInterface:
		fr.env[fr.info.idx[instr]] = iface{t: instr.X.Type(), v: fr.get(instr.X)}

	case *ssa.Extract:
		fr.env[fr.info.idx[instr]] = fr.get(instr.Tuple).(tuple)[instr.Index]

	case *ssa.Slice:
		fr.env[fr.info.idx[instr]] = slice(fr.get(instr.X), fr.get(instr.Low), fr.get(instr.High), fr.get(instr.Max))

	case *ssa.Return:
		switch len(instr.Results) {
		case 0:
		case 1:
			fr.result = fr.get(instr.Results[0])
		default:
			var res []value
			for _, r := range instr.Results {
				res = append(res, fr.get(r))
			}
			fr.result = tuple(res)
		}
		fr.block = nil
		return kReturn

	case *ssa.RunDefers:
		fr.runDefers()

	case *ssa.Panic:
		panic(targetPanic{fr.get(instr.X)})

	case *ssa.Send:
		fr.get(instr.Chan).(*ochan).send(fr.get(instr.X))

	case *ssa.Store:
		store(mustDeref(instr.Addr.Type()), fr.get(instr.Addr).(*value), fr.get(instr.Val))

	case *ssa.If:
		succ := 1
		switch c := fr.get(instr.Cond).(type) {
		case bool:
			if c {
				succ = 0
			}
		case sv:
			if cur.branch(c.t) {
				succ = 0
			}
		}
		fr.prevBlock, fr.block = fr.block, fr.block.Succs[succ]
		return kJump

	case *ssa.Jump:
		fr.prevBlock, fr.block = fr.block, fr.block.Succs[0]
		return kJump

	case *ssa.Defer:
		fn, args := prepareCall(fr, &instr.Call)
		defers := &fr.defers
		if into := fr.get(instr.DeferStack); into != nil {
			defers = into.(**deferred)
		}
		*defers = &deferred{
			fn:    fn,
			args:  args,
			instr: instr,
			tail:  *defers,
		}

	case *ssa.Go:
		fn, args := prepareCall(fr, &instr.Call)
		cur.goQueue = append(cur.goQueue, goTask{fn, args, instr.Pos()})

	case *ssa.MakeChan:
		fr.env[fr.info.idx[instr]] = &ochan{cap: int(asInt64(fr.get(instr.Size)))}

	case *ssa.Alloc:
		var addr *value
		if instr.Heap {
			// new
			addr = new(value)
			fr.env[fr.info.idx[instr]] = addr
		} else {
			// local
			addr = fr.env[fr.info.idx[instr]].(*value)
		}
		*addr = zero(mustDeref(instr.Type()))

	case *ssa.MakeSlice:
		capv := asInt64(fr.get(instr.Cap))
		if capv < 0 || capv > 1<<24 {
			panic(runtimeError(fmt.Sprintf("makeslice: cap out of range (%d)", capv)))
		}
		slice := make([]value, capv)
		tElt := instr.Type().Underlying().(*types.Slice).Elem()
		for i := range slice {
			slice[i] = zero(tElt)
		}
		fr.env[fr.info.idx[instr]] = slice[:asInt64(fr.get(instr.Len))]

	case *ssa.MakeMap:
		var reserve int64
		if instr.Reserve != nil {
			reserve = asInt64(fr.get(instr.Reserve))
		}
		if !fitsInt(reserve, fr.i.sizes) {
			panic(fmt.Sprintf("ssa.MakeMap.Reserve value %d does not fit in int", reserve))
		}
		fr.env[fr.info.idx[instr]] = makeMap(instr.Type().Underlying().(*types.Map).Key(), reserve)

	case *ssa.Range:
		fr.env[fr.info.idx[instr]] = rangeIter(fr.get(instr.X), instr.X.Type())

	case *ssa.Next:
		fr.env[fr.info.idx[instr]] = fr.get(instr.Iter).(iter).next()

	case *ssa.FieldAddr:
		fr.env[fr.info.idx[instr]] = &(*fr.get(instr.X).(*value)).(structure)[instr.Field]

	case *ssa.Field:
		fr.env[fr.info.idx[instr]] = fr.get(instr.X).(structure)[instr.Field]

	case *ssa.IndexAddr:
		x := fr.get(instr.X)
		idx := fr.get(instr.Index)
		switch x := x.(type) {
		case []value:
			fr.env[fr.info.idx[instr]] = &x[cur.index(idx, len(x))]
		case *value: // *array
			a := (*x).(array)
			fr.env[fr.info.idx[instr]] = &a[cur.index(idx, len(a))]
		default:
			panic(fmt.Sprintf("unexpected x type in IndexAddr: %T", x))
		}

	case *ssa.Index:
		x := fr.get(instr.X)
		idx := fr.get(instr.Index)

		switch x := x.(type) {
		case array:
			fr.env[fr.info.idx[instr]] = symIndexRead([]value(x), idx)
		case string:
			if _, ok := idx.(sv); ok {
				fr.env[fr.info.idx[instr]] = symIndexRead(strBytes(x), idx)
			} else {
				fr.env[fr.info.idx[instr]] = x[cur.index(idx, len(x))]
			}
		case sstr:
			fr.env[fr.info.idx[instr]] = symIndexRead([]value(x), idx)
		default:
			panic(fmt.Sprintf("unexpected x type in Index: %T", x))
		}

	case *ssa.Lookup:
		fr.env[fr.info.idx[instr]] = lookup(instr, fr.get(instr.X), fr.get(instr.Index))

	case *ssa.MapUpdate:
		m := fr.get(instr.Map)
		key := fr.get(instr.Key)
		v := fr.get(instr.Value)
		switch m := m.(type) {
		case *omap:
			m.insert(key, v)
		default:
			panic(fmt.Sprintf("illegal map type: %T", m))
		}

	case *ssa.TypeAssert:
		fr.env[fr.info.idx[instr]] = typeAssert(fr.i, instr, fr.get(instr.X).(iface))

	case *ssa.MakeClosure:
		var bindings []value
		for _, binding := range instr.Bindings {
			bindings = append(bindings, fr.get(binding))
		}
		fr.env[fr.info.idx[instr]] = &closure{instr.Fn.(*ssa.Function), bindings}

	case *ssa.Phi:
		log.Fatal("unreachable") // phis are processed at block entry

	case *ssa.Select:
		fr.env[fr.info.idx[instr]] = doSelect(fr, instr)

	default:
		panic(fmt.Sprintf("unexpected instruction: %T", instr))
	}

	// if val, ok := instr.(ssa.Value); ok {
	// 	fmt.Println(toString(fr.env[val])) // debugging
	// }

	return kNext
}

// prepareCall determines the function value and argument values for a
// function call in a Call, Go or Defer instruction, performing
// interface method lookup if needed.
func prepareCall(fr *frame, call *ssa.CallCommon) (fn value, args []value) {
	v := fr.get(call.Value)
	if call.Method == nil {
		// Function call.
		fn = v
	} else {
		// Interface method invocation.
		recv := v.(iface)
		if recv.t == nil {
			panic("method invoked on nil interface")
		}
		if f := lookupMethod(fr.i, recv.t, call.Method); f == nil {
			// Unreachable in well-typed programs.
			panic(fmt.Sprintf("method set for dynamic type %v does not contain %s", recv.t, call.Method))
		} else {
			fn = f
		}
		args = append(args, recv.v)
	}
	for _, arg := range call.Args {
		args = append(args, fr.get(arg))
	}
	return
}

// call interprets a call to a function (function, builtin or closure)
// fn with arguments args, returning its result.
// callpos is the position of the callsite.
func call(i *interpreter, caller *frame, callpos token.Pos, fn value, args []value) value {
	switch fn := fn.(type) {
	case *ssa.Function:
		if fn == nil {
			panic("call of nil function") // nil of func type
		}
		return callSSA(i, caller, callpos, fn, args, nil)
	case *closure:
		return callSSA(i, caller, callpos, fn.Fn, args, fn.Env)
	case *ssa.Builtin:
		return callBuiltin(caller, callpos, fn, args)
	}
	panic(fmt.Sprintf("cannot call %T", fn))
}

func loc(fset *token.FileSet, pos token.Pos) string {
	if pos == token.NoPos {
		return ""
	}
	return " at " + fset.Position(pos).String()
}

// callSSA interprets a call to function fn with arguments args,
// and lexical environment env, returning its result.
// callpos is the position of the callsite.
func callSSA(i *interpreter, caller *frame, callpos token.Pos, fn *ssa.Function, args []value, env []value) value {
	if i.mode&EnableTracing != 0 {
		fset := fn.Prog.Fset
		// TODO(adonovan): fix: loc() lies for external functions.
		fmt.Fprintf(os.Stderr, "Entering %s%s.\n", fn, loc(fset, fn.Pos()))
		suffix := ""
		if caller != nil {
			suffix = ", resuming " + caller.fn.String() + loc(fset, callpos)
		}
		defer fmt.Fprintf(os.Stderr, "Leaving %s%s.\n", fn, suffix)
	}
	fr := &frame{
		i:      i,
		caller: caller, // for panic/recover
		fn:     fn,
	}
	if fn.Parent() == nil {
		info := infoOf(fn)
		name := info.name
		if ext := info.ext; ext != nil {
			if i.mode&EnableTracing != 0 {
				fmt.Fprintln(os.Stderr, "\t(external)")
			}
			cur.stub(name)
			return ext(fr, args)
		}
		if fn.Blocks == nil {
			unsupported("no code for function %s", name)
		}
		if fn.Synthetic == "package initializer" && fn.Pkg != nil && !i.isOwn(fn.Pkg) {
			return nil // foreign package: initialised lazily on first global access
		}
	}
	cur.Funcs[fn]++

	// generic function body?
	if fn.TypeParams().Len() > 0 && len(fn.TypeArgs()) == 0 {
		panic("interp requires ssa.BuilderMode to include InstantiateGenerics to execute generics")
	}

	fr.info = infoOf(fn)
	fr.env = make([]value, fr.info.n)
	fr.block = fn.Blocks[0]
	fr.locals = make([]value, len(fn.Locals))
	for i, l := range fn.Locals {
		fr.locals[i] = zero(mustDeref(l.Type()))
		fr.env[fr.info.idx[l]] = &fr.locals[i]
	}
	for i, p := range fn.Params {
		fr.env[fr.info.idx[p]] = args[i]
	}
	for i, fv := range fn.FreeVars {
		fr.env[fr.info.idx[fv]] = env[i]
	}
	for fr.block != nil {
		runFrame(fr)
	}
	// Destroy the locals to avoid accidental use after return.
	for i := range fn.Locals {
		fr.locals[i] = bad{}
	}
	return fr.result
}

// runFrame executes SSA instructions starting at fr.block and
// continuing until a return, a panic, or a recovered panic.
//
// After a panic, runFrame panics.
//
// After a normal return, fr.result contains the result of the call
// and fr.block is nil.
//
// A recovered panic in a function without named return parameters
// (NRPs) becomes a normal return of the zero value of the function's
// result type.
//
// After a recovered panic in a function with NRPs, fr.result is
// undefined and fr.block contains the block at which to resume
// control.
func runFrame(fr *frame) {
	defer func() {
		if fr.block == nil {
			return // normal return
		}
		if fr.i.mode&DisableRecover != 0 {
			return // let interpreter crash
		}
		p := recover()
		if isEnginePanic(p) {
			panic(p)
		}
		fr.panicking = true
		fr.panic = p
		if fr.i.mode&EnableTracing != 0 {
			fmt.Fprintf(os.Stderr, "Panicking: %T %v.\n", fr.panic, fr.panic)
		}
		fr.runDefers()
		fr.block = fr.fn.Recover
	}()

	for {
		if fr.i.mode&EnableTracing != 0 {
			fmt.Fprintf(os.Stderr, ".%s:\n", fr.block)
		}

		nonPhis := executePhis(fr)
		for _, instr := range nonPhis {
			if fr.i.mode&EnableTracing != 0 {
				if v, ok := instr.(ssa.Value); ok {
					fmt.Fprintln(os.Stderr, "\t", v.Name(), "=", instr)
				} else {
					fmt.Fprintln(os.Stderr, "\t", instr)
				}
			}
			cur.steps++
			if cur.steps > cur.MaxSteps {
				abortPath("inconclusive", "step budget %d exceeded", cur.MaxSteps)
			}
			if visitInstr(fr, instr) == kReturn {
				return
			}
			// Inv: kNext (continue) or kJump (last instr)
		}
	}
}

// executePhis executes the phi-nodes at the start of the current
// block and returns the non-phi instructions.
func executePhis(fr *frame) []ssa.Instruction {
	firstNonPhi := -1
	for i, instr := range fr.block.Instrs {
		if _, ok := instr.(*ssa.Phi); !ok {
			firstNonPhi = i
			break
		}
	}
	// Inv: 0 <= firstNonPhi; every block contains a non-phi.

	nonPhis := fr.block.Instrs[firstNonPhi:]
	if firstNonPhi > 0 {
		phis := fr.block.Instrs[:firstNonPhi]
		// Execute parallel assignment of phis.
		//
		// See "the swap problem" in Briggs et al's "Practical Improvements
		// to the Construction and Destruction of SSA Form" for discussion.
		predIndex := slices.Index(fr.block.Preds, fr.prevBlock)
		fr.phitemps = fr.phitemps[:0]
		for _, phi := range phis {
			phi := phi.(*ssa.Phi)
			if fr.i.mode&EnableTracing != 0 {
				fmt.Fprintln(os.Stderr, "\t", phi.Name(), "=", phi)
			}
			fr.phitemps = append(fr.phitemps, fr.get(phi.Edges[predIndex]))
		}
		for i, phi := range phis {
			fr.env[fr.info.idx[phi.(*ssa.Phi)]] = fr.phitemps[i]
		}
	}
	return nonPhis
}

// doRecover implements the recover() built-in.
func doRecover(caller *frame) value {
	// recover() must be exactly one level beneath the deferred
	// function (two levels beneath the panicking function) to
	// have any effect.  Thus we ignore both "defer recover()" and
	// "defer f() -> g() -> recover()".
	if caller.i.mode&DisableRecover == 0 &&
		caller != nil && !caller.panicking &&
		caller.caller != nil && caller.caller.panicking {
		caller.caller.panicking = false
		p := caller.caller.panic
		caller.caller.panic = nil

		// TODO(adonovan): support runtime.Goexit.
		switch p := p.(type) {
		case targetPanic:
			// The target program explicitly called panic().
			return p.v
		case runtime.Error:
			// The interpreter encountered a runtime error.
			return iface{caller.i.runtimeErrorString, p.Error()}
		case string:
			// The interpreter explicitly called panic().
			return iface{caller.i.runtimeErrorString, p}
		case error:
			return iface{caller.i.runtimeErrorString, p.Error()}
		default:
			panic(fmt.Sprintf("unexpected panic type %T in target call to recover()", p))
		}
	}
	return iface{}
}

func isEnginePanic(p interface{}) bool {
	switch p.(type) {
	case pathEnd, blockedPanic:
		return true
	}
	return false
}

func (i *interpreter) isOwn(pkg *ssa.Package) bool {
	p := pkg.Pkg.Path()
	return p == i.modPath || strings.HasPrefix(p, i.modPath+"/")
}

// packages whose initialisers are never run (the engine stubs what is needed from them)
var noInitPkgs = map[string]bool{
	"runtime": true, "reflect": true, "sync": true, "sync/atomic": true, "os": true,
	"syscall": true, "time": true, "unsafe": true, "errors": true, "fmt": true, "log": true,
	"testing": true, "io/fs": true, "os/signal": true, "net": true, "crypto/rand": true,
	"math/rand": true, "runtime/debug": true, "runtime/pprof": true,
}

// global returns the address of a global, allocating it on first use and
// lazily running the initialiser of foreign packages.
func (i *interpreter) global(g *ssa.Global) *value {
	if r, ok := i.globals[g]; ok {
		return r
	}
	cell := zero(mustDeref(g.Type()))
	r := &cell
	i.globals[g] = r
	pkg := g.Pkg
	if pkg != nil && !i.isOwn(pkg) && !i.pkgInited[pkg] {
		i.pkgInited[pkg] = true
		path := pkg.Pkg.Path()
		if ci := customInits[path]; ci != nil {
			ci(i, pkg)
		} else if !noInitPkgs[path] && !strings.HasPrefix(path, "internal/") && !strings.HasPrefix(path, "runtime/") {
			if initFn := pkg.Func("init"); initFn != nil && initFn.Blocks != nil {
				func() {
					defer func() {
						if p := recover(); p != nil {
							if pe, ok := p.(pathEnd); ok {
								panic(pathEnd{pe.status, "lazy init of " + path + ": " + pe.msg})
							}
							unsupported("lazy init of package %s panicked: %v", path, p)
						}
					}()
					i.lazyBody(initFn)
				}()
			}
		}
	}
	return r
}

// lazyBody runs a foreign package initialiser body directly (callSSA skips
// foreign initialisers, so the initialisers of its imports are not run from
// here; they run on demand when one of their globals is touched).
func (i *interpreter) lazyBody(initFn *ssa.Function) {
	fr := &frame{i: i, fn: initFn}
	fr.info = infoOf(initFn)
	fr.env = make([]value, fr.info.n)
	fr.block = initFn.Blocks[0]
	fr.locals = make([]value, len(initFn.Locals))
	for k, l := range initFn.Locals {
		fr.locals[k] = zero(mustDeref(l.Type()))
		fr.env[fr.info.idx[l]] = &fr.locals[k]
	}
	for fr.block != nil {
		runFrame(fr)
	}
}

// symIndexRead reads xs[idx] for a possibly symbolic index: scalars become an
// ite chain (no forking beyond the bounds check), other element types fork.
func symIndexRead(xs []value, idx value) value {
	x, ok := idx.(sv)
	if !ok {
		return xs[cur.index(idx, len(xs))]
	}
	n := len(xs)
	if n == 0 || !cur.inRange(x, n) {
		panic(runtimeError(fmt.Sprintf("index out of range [symbolic] with length %d", n)))
	}
	scalar := true
	for _, e := range xs {
		if _, ok := kindOf(e); !ok {
			scalar = false
			break
		}
	}
	if !scalar || n > 64 {
		return xs[cur.concretizeIndex(x, n)]
	}
	k, _ := kindOf(xs[0])
	var r value = xs[n-1]
	for j := n - 2; j >= 0; j-- {
		r = iteValue(eqConst(x.t, x.k, uint64(j)), xs[j], r)
	}
	if _, ok := kindOf(r); !ok {
		panic("symIndexRead: non-scalar")
	}
	_ = k
	return r
}

// choice forks over n alternatives and returns the chosen index.
func (c *PathCtx) choice(tag string, n int) int {
	if n <= 1 {
		return 0
	}
	c.fresh++
	v := c.newInput(fmt.Sprintf("%s#%d", tag, c.fresh), types.Uint8).(sv)
	c.assume(rangeTerm(v, n))
	return c.concretizeIndex(v, n)
}

func doSelect(fr *frame, instr *ssa.Select) value {
	readyCases := func() []int {
		var ready []int
		for i, st := range instr.States {
			ch := fr.get(st.Chan).(*ochan)
			if ch == nil {
				continue
			}
			if st.Dir == types.RecvOnly {
				if ch.canRecv() {
					ready = append(ready, i)
				}
			} else if ch.closed || ch.canSend() {
				ready = append(ready, i)
			}
		}
		return ready
	}
	ready := readyCases()
	// a blocking select with nothing ready: the environment (sym.OnYield) may act - other goroutines,
	// passing time - until a case becomes ready or it declares that nothing will ever happen
	for round := 0; len(ready) == 0 && instr.Blocking && cur.yieldFn != nil && round < 64; round++ {
		r := call(fr.i, fr, 0, cur.yieldFn, []value{"select"})
		ready = readyCases()
		if rb, ok := r.(bool); ok && !rb {
			break
		}
	}
	chosen := -1
	switch {
	case len(ready) == 0 && instr.Blocking:
		panic(blockedPanic{"select with no ready case"})
	case len(ready) == 0:
		chosen = -1
	default:
		chosen = ready[cur.choice("select", len(ready))]
	}
	var recv value
	recvOk := false
	if chosen >= 0 {
		st := instr.States[chosen]
		ch := fr.get(st.Chan).(*ochan)
		if st.Dir == types.RecvOnly {
			recv, recvOk = ch.recv()
		} else {
			ch.send(fr.get(st.Send))
		}
	}
	r := tuple{chosen, recvOk}
	for i, st := range instr.States {
		if st.Dir == types.RecvOnly {
			var v value
			if i == chosen && recvOk {
				v = recv
			} else {
				v = zero(st.Chan.Type().Underlying().(*types.Chan).Elem())
			}
			r = append(r, v)
		}
	}
	return r
}

// fnInfo caches per-function data: the slot of every SSA value in the frame
// environment and the external (intrinsic) implementation, if any.
type fnInfo struct {
	idx  map[ssa.Value]int
	n    int
	name string
	ext  externalFn
}

var fnInfos = map[*ssa.Function]*fnInfo{}

func infoOf(fn *ssa.Function) *fnInfo {
	if fi, ok := fnInfos[fn]; ok {
		return fi
	}
	fi := &fnInfo{idx: map[ssa.Value]int{}, name: fn.String()}
	fi.ext = externals[fi.name]
	add := func(v ssa.Value) {
		if _, ok := fi.idx[v]; !ok {
			fi.idx[v] = fi.n
			fi.n++
		}
	}
	for _, p := range fn.Params {
		add(p)
	}
	for _, fv := range fn.FreeVars {
		add(fv)
	}
	for _, l := range fn.Locals {
		add(l)
	}
	for _, b := range fn.Blocks {
		for _, ins := range b.Instrs {
			if v, ok := ins.(ssa.Value); ok {
				add(v)
			}
		}
	}
	fnInfos[fn] = fi
	return fi
}

// customInits replaces the initialiser of foreign packages whose real one
// cannot be interpreted (unsafe, reflection), setting only what the code
// under test reads from them.
var customInits = map[string]func(i *interpreter, pkg *ssa.Package){}

func init() {
	// package time is never initialised (it reads the environment), but time.Unix hands out time.Local and the
	// code under test may compare Time values with ==, which compares the location pointer as well: Local and
	// UTC point at their (zero) Location structs, as in the real package
	customInits["time"] = func(i *interpreter, pkg *ssa.Package) {
		for name, target := range map[string]string{"Local": "localLoc", "UTC": "utcLoc"} {
			g, ok1 := pkg.Members[name].(*ssa.Global)
			t, ok2 := pkg.Members[target].(*ssa.Global)
			if ok1 && ok2 {
				cell := i.global(g)
				*cell = i.global(t)
			}
		}
	}
	customInits["github.com/ethereum/go-ethereum/common"] = func(i *interpreter, pkg *ssa.Package) {
		bigPkg := i.prog.ImportedPackage("math/big")
		if bigPkg == nil {
			return
		}
		newInt := bigPkg.Func("NewInt")
		for name, v := range map[string]int64{"Big0": 0, "Big1": 1, "Big2": 2, "Big3": 3, "Big32": 32, "Big256": 256, "Big257": 257} {
			if g, ok := pkg.Members[name].(*ssa.Global); ok {
				cell := i.global(g)
				*cell = call(i, nil, token.NoPos, newInt, []value{v})
			}
		}
	}
}
