package interp

// Deterministic, insertion-ordered map used for every Go map (replaces
// the stock interpreter's native map / hashmap so that iteration order is
// reproducible under prefix replay and keys may contain symbolic parts),
// and a FIFO channel model for the sequentialised harnesses.

import (
	"fmt"
	"go/types"

	_ "gosym/smt"
)

type hashable interface {
	hash(t types.Type) int
	eq(t types.Type, x interface{}) bool
}

type omap struct {
	keyType types.Type
	keys    []value
	vals    []value
	live    []bool
	idx     map[int][]int // hash -> entry indices (entries with concrete keys only)
	n       int
	symKeys int // number of live entries whose key has symbolic parts
}

func makeMap(kt types.Type, reserve int64) value {
	return &omap{keyType: kt, idx: make(map[int][]int)}
}

func (m *omap) len() int {
	if m == nil {
		return 0
	}
	return m.n
}

// find returns the entry index of key k or -1 (forks on symbolic equalities).
func (m *omap) find(k value) int {
	if m == nil {
		return -1
	}
	if !deepSym(k) {
		h := hash(m.keyType, m.keyType, k)
		for _, i := range m.idx[h] {
			if m.live[i] && eqTerm(m.keyType, k, m.keys[i]).IsTrue() {
				return i
			}
		}
		if m.symKeys == 0 {
			return -1
		}
		// compare with the symbolic-key entries
		for i := range m.keys {
			if m.live[i] && deepSym(m.keys[i]) {
				if cur.branch(eqTerm(m.keyType, k, m.keys[i])) {
					return i
				}
			}
		}
		return -1
	}
	for i := range m.keys {
		if m.live[i] {
			if cur.branch(eqTerm(m.keyType, k, m.keys[i])) {
				return i
			}
		}
	}
	return -1
}

func (m *omap) lookup(k value) (value, bool) {
	if i := m.find(k); i >= 0 {
		return m.vals[i], true
	}
	return nil, false
}

func (m *omap) insert(k, v value) {
	if m == nil {
		panic(runtimeError("assignment to entry in nil map"))
	}
	if i := m.find(k); i >= 0 {
		m.vals[i] = v
		return
	}
	i := len(m.keys)
	m.keys = append(m.keys, k)
	m.vals = append(m.vals, v)
	m.live = append(m.live, true)
	m.n++
	if deepSym(k) {
		m.symKeys++
	} else {
		h := hash(m.keyType, m.keyType, k)
		m.idx[h] = append(m.idx[h], i)
	}
}

func (m *omap) delete(k value) {
	if m == nil {
		return
	}
	if i := m.find(k); i >= 0 {
		m.live[i] = false
		m.n--
		if deepSym(m.keys[i]) {
			m.symKeys--
		}
		m.vals[i] = nil
		if m.n == 0 { // compact
			m.keys, m.vals, m.live = nil, nil, nil
			m.idx = make(map[int][]int)
			m.symKeys = 0
		}
	}
}

type omapIter struct {
	m     *omap
	order []int // entry indices to visit
	pos   int
}

func (it *omapIter) next() tuple {
	for it.pos < len(it.order) {
		i := it.order[it.pos]
		it.pos++
		if i < len(it.m.live) && it.m.live[i] {
			return tuple{true, it.m.keys[i], it.m.vals[i]}
		}
	}
	return tuple{false, nil, nil}
}

func newOmapIter(m *omap) *omapIter {
	it := &omapIter{m: m}
	if m == nil {
		return it
	}
	for i := range m.keys {
		if m.live[i] {
			it.order = append(it.order, i)
		}
	}
	if cur != nil && cur.NondetMaps && len(it.order) > 1 {
		if len(it.order) > 5 {
			unsupported("nondeterministic map order over %d entries", len(it.order))
		}
		// choose a permutation by forking (selection: pick one of the remaining each step)
		rest := append([]int{}, it.order...)
		var perm []int
		for len(rest) > 1 {
			cur.fresh++
			name := fmt.Sprintf("maporder#%d", cur.fresh)
			v := cur.newInput(name, types.Uint8).(sv)
			cur.assume(rangeTerm(v, len(rest)))
			j := cur.concretizeIndex(v, len(rest))
			perm = append(perm, rest[j])
			rest = append(rest[:j], rest[j+1:]...)
		}
		perm = append(perm, rest[0])
		it.order = perm
	}
	return it
}

// ---------------------------------------------------------------------
// channels: FIFO buffers; no real blocking

type ochan struct {
	buf    []value
	cap    int
	closed bool
}

func (c *ochan) canSend() bool {
	if c.cap == 0 {
		return len(c.buf) == 0 // one pending rendezvous item is allowed
	}
	return len(c.buf) < c.cap
}

func (c *ochan) send(v value) {
	if c == nil {
		panic(blockedPanic{"send on nil channel"})
	}
	if c.closed {
		panic(runtimeError("send on closed channel"))
	}
	if !c.canSend() {
		panic(blockedPanic{"send on full channel"})
	}
	c.buf = append(c.buf, v)
}

func (c *ochan) canRecv() bool { return c != nil && (len(c.buf) > 0 || c.closed) }

func (c *ochan) recv() (value, bool) {
	if c == nil {
		panic(blockedPanic{"receive from nil channel"})
	}
	if len(c.buf) > 0 {
		v := c.buf[0]
		c.buf = c.buf[1:]
		return v, true
	}
	if c.closed {
		return nil, false
	}
	panic(blockedPanic{"receive from empty channel"})
}
