package interp

// Symbolic layer of the interpreter: symbolic scalars (sv), symbolic-byte
// strings (sstr), the per-path context (decision prefix, path condition,
// solver, model cache) and the branching primitive.

import (
	"fmt"
	"go/token"
	"go/types"
	"math/big"
	"sort"
	"strings"

	"gosym/smt"

	"golang.org/x/tools/go/ssa"
)

// sv is a symbolic scalar: t is never a constant term (constants are
// always represented by the ordinary concrete Go value).
type sv struct {
	t *smt.Term
	k types.BasicKind
}

// sstr is a string with concrete length whose bytes may be symbolic
// (each element is uint8 or sv{Uint8}).  A fully concrete sstr is
// always normalised to a Go string.
type sstr []value

func kindWidth(k types.BasicKind) int {
	switch k {
	case types.Bool:
		return 0
	case types.Int8, types.Uint8:
		return 8
	case types.Int16, types.Uint16:
		return 16
	case types.Int32, types.Uint32:
		return 32
	case types.Int, types.Int64, types.Uint, types.Uint64, types.Uintptr:
		return 64
	}
	panic(fmt.Sprintf("kindWidth: kind %d", k))
}

func kindSigned(k types.BasicKind) bool {
	switch k {
	case types.Int, types.Int8, types.Int16, types.Int32, types.Int64:
		return true
	}
	return false
}

// kindOf returns the basic kind of a concrete scalar or sv; ok=false otherwise.
func kindOf(v value) (types.BasicKind, bool) {
	switch v := v.(type) {
	case sv:
		return v.k, true
	case bool:
		return types.Bool, true
	case int:
		return types.Int, true
	case int8:
		return types.Int8, true
	case int16:
		return types.Int16, true
	case int32:
		return types.Int32, true
	case int64:
		return types.Int64, true
	case uint:
		return types.Uint, true
	case uint8:
		return types.Uint8, true
	case uint16:
		return types.Uint16, true
	case uint32:
		return types.Uint32, true
	case uint64:
		return types.Uint64, true
	case uintptr:
		return types.Uintptr, true
	}
	return 0, false
}

func isSym(v value) bool {
	_, ok := v.(sv)
	return ok
}

// toTerm converts a concrete scalar or sv into a term.
func toTerm(v value) *smt.Term {
	switch v := v.(type) {
	case sv:
		return v.t
	case bool:
		return smt.Bool(v)
	case int:
		return smt.Const(64, uint64(v))
	case int8:
		return smt.Const(8, uint64(v))
	case int16:
		return smt.Const(16, uint64(v))
	case int32:
		return smt.Const(32, uint64(v))
	case int64:
		return smt.Const(64, uint64(v))
	case uint:
		return smt.Const(64, uint64(v))
	case uint8:
		return smt.Const(8, uint64(v))
	case uint16:
		return smt.Const(16, uint64(v))
	case uint32:
		return smt.Const(32, uint64(v))
	case uint64:
		return smt.Const(64, v)
	case uintptr:
		return smt.Const(64, uint64(v))
	}
	panic(fmt.Sprintf("toTerm: unsupported %T", v))
}

// fromTerm wraps a term of kind k, normalising constants to Go values.
func fromTerm(t *smt.Term, k types.BasicKind) value {
	if isIntTerm(t) {
		return fromIntTerm(t, k)
	}
	if t.IsConst() {
		return constOfKind(t.V, k)
	}
	return sv{t, k}
}

func constOfKind(u uint64, k types.BasicKind) value {
	switch k {
	case types.Bool:
		return u != 0
	case types.Int:
		return int(u)
	case types.Int8:
		return int8(u)
	case types.Int16:
		return int16(u)
	case types.Int32:
		return int32(u)
	case types.Int64:
		return int64(u)
	case types.Uint:
		return uint(u)
	case types.Uint8:
		return uint8(u)
	case types.Uint16:
		return uint16(u)
	case types.Uint32:
		return uint32(u)
	case types.Uint64:
		return u
	case types.Uintptr:
		return uintptr(u)
	}
	panic(fmt.Sprintf("constOfKind: kind %d", k))
}

func boolVal(t *smt.Term) value { return fromTerm(t, types.Bool) }

// ---------------------------------------------------------------------
// engine control-flow panics (never visible to the target program)

type pathEnd struct {
	status string // ok | assume | violation | inconclusive | blocked
	msg    string
}

func abortPath(status, format string, args ...interface{}) {
	panic(pathEnd{status, fmt.Sprintf(format, args...)})
}

func unsupported(format string, args ...interface{}) {
	abortPath("inconclusive", "unsupported: "+format, args...)
}

// blockedPanic unwinds to the innermost sym.RunUntilBlocked.
type blockedPanic struct{ what string }

// ---------------------------------------------------------------------

type Violation struct {
	Label  string            `json:"label"`
	Kind   string            `json:"kind"` // assert | panic
	Inputs map[string]uint64 `json:"inputs"`
	Pos    string            `json:"pos,omitempty"`
	Prefix string            `json:"prefix"`
}

type Pending struct {
	Prefix   string            `json:"prefix"`
	Model    map[string]uint64 `json:"model,omitempty"`
	IntModel map[string]string `json:"int_model,omitempty"`
}

type Observation struct {
	Name string `json:"name"`
	Val  string `json:"val"`
}

type inputVar struct {
	name string
	k    types.BasicKind
	t    *smt.Term
}

type memoEnt struct {
	t *smt.Term
	v bool
}

// PathCtx is the state of one path execution.
type PathCtx struct {
	Solver        *smt.Solver
	prefix        string
	pos           int
	decisions     []byte
	pc            []*smt.Term
	memo          map[uint64][]memoEnt
	model         *smt.Model
	eval          *smt.Evaluator
	Pending       []Pending
	Violations    []Violation
	Reached       map[string]bool
	Observations  []Observation
	inputs        []inputVar
	inputByName   map[string]int
	steps         int64
	MaxSteps      int64
	MaxDecisions  int
	Known         map[string]bool
	Funcs         map[*ssa.Function]int64
	goQueue       []goTask
	Stubs         map[string]bool
	NondetMaps    bool
	TrackMutex    bool // sync.Mutex / RWMutex keep their lock state (sym.TrackMutexes)
	mutexes       map[*value]int
	YieldOnWG     bool // sync.WaitGroup.Wait yields to the environment (tag "wg")
	RandExtremes  bool // math/rand.Intn(n) explores only 0 and n-1
	IntMode       bool
	fresh         int
	clock         value // harness-controlled clock for time.Now
	forkCount     int
	queries       int
	QueryLog      []string // standalone scripts of assertion queries (when enabled)
	LogQueries    bool
	intInputs     map[string]bool
	obsRaw        []rawObs
	oneShots      int
	divs          []divEnt
	Overflows     int
	rlpBlobs      []iface
	timers        []*timerRec
	yieldFn       value
	condSignalled bool
	sleeps        int
}

type divEnt struct {
	a    *smt.Term
	c    uint64
	q, r *smt.Term
}

// udivConst returns quotient and remainder of a / c (unsigned, c constant > 1) as
// auxiliary variables constrained by a = q*c + r, r < c, q <= max/c.
func (c *PathCtx) udivConst(a *smt.Term, cst uint64) (*smt.Term, *smt.Term) {
	for _, d := range c.divs {
		if d.c == cst && smt.Equal(d.a, a) {
			return d.q, d.r
		}
	}
	w := a.W
	if cst&(cst-1) == 0 { // power of two
		sh := 0
		for (uint64(1) << uint(sh)) != cst {
			sh++
		}
		q := smt.LShr(a, smt.Const(w, uint64(sh)))
		r := smt.BAnd(a, smt.Const(w, cst-1))
		return q, r
	}
	k := len(c.divs)
	qn, rn := fmt.Sprintf("udiv#%d", k), fmt.Sprintf("urem#%d", k)
	q, r := smt.Var(qn, w), smt.Var(rn, w)
	maxv := ^uint64(0)
	if w < 64 {
		maxv = (uint64(1) << uint(w)) - 1
	}
	cons := smt.And(
		smt.Eq(a, smt.Add(smt.Mul(q, smt.Const(w, cst)), r)),
		smt.And(smt.ULt(r, smt.Const(w, cst)), smt.ULe(q, smt.Const(w, maxv/cst))))
	c.divs = append(c.divs, divEnt{a, cst, q, r})
	// keep the cached model valid by extending it with the determined values
	if c.eval != nil {
		av := c.eval.Eval(a)
		c.model.BV[qn] = av / cst
		c.model.BV[rn] = av % cst
	}
	c.assume(cons)
	return q, r
}

type goTask struct {
	fn   value
	args []value
	pos  token.Pos
}

var cur *PathCtx

func newPathCtx(s *smt.Solver, prefix string, model map[string]uint64, intModel map[string]string) *PathCtx {
	c := &PathCtx{
		Solver:       s,
		prefix:       prefix,
		memo:         map[uint64][]memoEnt{},
		Reached:      map[string]bool{},
		inputByName:  map[string]int{},
		MaxSteps:     200_000_000,
		MaxDecisions: 4000,
		Known:        map[string]bool{},
		Funcs:        map[*ssa.Function]int64{},
		Stubs:        map[string]bool{},
		intInputs:    map[string]bool{},
	}
	if model != nil {
		m := smt.NewModel()
		for k, v := range model {
			m.BV[k] = v
		}
		for k, v := range intModel {
			if n, ok := new(big.Int).SetString(v, 10); ok {
				m.Ints[k] = n
			}
		}
		c.model = m
		c.eval = smt.NewEvaluator(m)
	}
	return c
}

func (c *PathCtx) stub(name string) { c.Stubs[name] = true }

func (c *PathCtx) memoGet(t *smt.Term) (bool, bool) {
	if t.Op == smt.OpNot {
		v, ok := c.memoGet(t.Args[0])
		return !v, ok
	}
	for _, e := range c.memo[t.Hash()] {
		if smt.Equal(e.t, t) {
			return e.v, true
		}
	}
	return false, false
}

func (c *PathCtx) memoSet(t *smt.Term, v bool) {
	if t.IsConst() {
		return
	}
	h := t.Hash()
	for _, e := range c.memo[h] {
		if smt.Equal(e.t, t) {
			return
		}
	}
	c.memo[h] = append(c.memo[h], memoEnt{t, v})
	switch t.Op {
	case smt.OpNot:
		c.memoSet(t.Args[0], !v)
	case smt.OpAnd:
		if v {
			c.memoSet(t.Args[0], true)
			c.memoSet(t.Args[1], true)
		}
	case smt.OpOr:
		if !v {
			c.memoSet(t.Args[0], false)
			c.memoSet(t.Args[1], false)
		}
	}
}

// assume adds t to the path condition (no feasibility check).
func (c *PathCtx) assume(t *smt.Term) {
	if t.IsTrue() {
		return
	}
	c.pc = append(c.pc, t)
	c.memoSet(t, true)
	c.Solver.Assert(t)
	if c.eval != nil && c.eval.Eval(t) != 1 {
		c.invalidateModel()
	}
}

// replaying reports whether the path is still following its decision prefix
// (everything met now was already checked by the path that forked this one).
func (c *PathCtx) replaying() bool { return c.pos < len(c.prefix) }

// proposal returns the value proposed for a concretisation: read from the
// prefix while replaying (so the decision sequence is reproduced exactly),
// otherwise computed and logged.
func (c *PathCtx) proposal(compute func() uint64) uint64 {
	if c.pos < len(c.prefix) && c.prefix[c.pos] == '[' {
		end := strings.IndexByte(c.prefix[c.pos:], ']') + c.pos
		var v uint64
		fmt.Sscanf(c.prefix[c.pos+1:end], "%x", &v)
		c.decisions = append(c.decisions, c.prefix[c.pos:end+1]...)
		c.pos = end + 1
		return v
	}
	v := compute()
	s := fmt.Sprintf("[%x]", v)
	c.decisions = append(c.decisions, s...)
	c.pos += len(s)
	return v
}

func (c *PathCtx) setModel(m *smt.Model) {
	c.model = m
	c.eval = smt.NewEvaluator(m)
}

func (c *PathCtx) invalidateModel() { c.model, c.eval = nil, nil }

// modelHolds reports whether the cached model satisfies t (only if a model is cached).
func (c *PathCtx) modelSays(t *smt.Term) (bool, bool) {
	if c.eval == nil {
		return false, false
	}
	return c.eval.Eval(t) == 1, true
}

// check asks the solver whether pc ∧ t is satisfiable; on Sat the model is returned.
func (c *PathCtx) check(t *smt.Term) (smt.Result, *smt.Model) {
	c.queries++
	r := c.Solver.CheckWith(t)
	var m *smt.Model
	if r == smt.Sat {
		m = c.Solver.GetModel()
	}
	c.Solver.Pop()
	if r == smt.Unknown {
		// the incremental core gave up: retry the same query one-shot in a fresh process
		r, m = c.oneShot(t)
		if r == smt.Unknown {
			abortPath("inconclusive", "solver returned unknown/error on incremental and one-shot query (%v)", c.Solver.ErrLines)
		}
	}
	return r, m
}

// OneShotTimeoutMs is the budget of the non-incremental fallback query.
var OneShotTimeoutMs = 60000

func (c *PathCtx) script(extra *smt.Term) (string, map[string]int) {
	p := smt.NewPrinter()
	var body strings.Builder
	for _, t := range c.pc {
		ref := p.Ref(t)
		body.WriteString("(assert " + ref + ")\n")
	}
	if extra != nil {
		ref := p.Ref(extra)
		body.WriteString("(assert " + ref + ")\n")
	}
	return p.Out.String() + body.String(), p.Declared
}

func (c *PathCtx) oneShot(extra *smt.Term) (smt.Result, *smt.Model) {
	script, decl := c.script(extra)
	c.oneShots++
	cmd := c.Solver.Cmd
	if cmd[0] == "libz3" {
		cmd = []string{"z3-new", "-in"}
	}
	r, m, _ := smt.OneShot(cmd, script, decl, OneShotTimeoutMs)
	switch r {
	case smt.Sat:
		c.Solver.NSat++
		c.Solver.NUnknown--
	case smt.Unsat:
		c.Solver.NUnsat++
		c.Solver.NUnknown--
	}
	return r, m
}

func modelMap(m *smt.Model) map[string]uint64 {
	if m == nil {
		return nil
	}
	r := make(map[string]uint64, len(m.BV))
	for k, v := range m.BV {
		r[k] = v
	}
	return r
}

func intModelMap(m *smt.Model) map[string]string {
	if m == nil || len(m.Ints) == 0 {
		return nil
	}
	r := make(map[string]string, len(m.Ints))
	for k, v := range m.Ints {
		r[k] = v.String()
	}
	return r
}

func pendingOf(prefix string, m *smt.Model) Pending {
	return Pending{Prefix: prefix, Model: modelMap(m), IntModel: intModelMap(m)}
}

// branch decides a symbolic boolean: follows the decision prefix, otherwise
// asks the solver which sides are feasible, queues the other side and
// continues with one.  The returned side is added to the path condition.
func (c *PathCtx) branch(t *smt.Term) bool {
	if t.IsConst() {
		return t.V == 1
	}
	if v, ok := c.memoGet(t); ok {
		return v
	}
	if len(c.decisions) >= c.MaxDecisions {
		abortPath("inconclusive", "decision cap %d reached (unwinding bound)", c.MaxDecisions)
	}
	var d bool
	if c.pos < len(c.prefix) {
		ch := c.prefix[c.pos]
		if ch != '0' && ch != '1' {
			abortPath("inconclusive", "replay diverged from decision prefix at %d (%q): nondeterministic execution", c.pos, ch)
		}
		d = ch == '1'
		c.pos++
	} else {
		c.pos++
		c.forkCount++
		nt := smt.Not(t)
		if mv, ok := c.modelSays(t); ok {
			// side mv is feasible (witnessed by the cached model); query the other
			other := nt
			if !mv {
				other = t
			}
			r, m := c.check(other)
			if r == smt.Sat {
				c.Pending = append(c.Pending, pendingOf(string(c.decisions)+bit(!mv), m))
			}
			d = mv
		} else {
			r, m := c.check(t)
			if r == smt.Sat {
				c.setModel(m)
				r2, m2 := c.check(nt)
				if r2 == smt.Sat {
					c.Pending = append(c.Pending, pendingOf(string(c.decisions)+"0", m2))
				}
				d = true
			} else {
				d = false // pc is satisfiable by invariant, so ¬t is feasible
			}
		}
	}
	if d {
		c.decisions = append(c.decisions, '1')
		c.assume(t)
	} else {
		c.decisions = append(c.decisions, '0')
		c.assume(smt.Not(t))
	}
	return d
}

func bit(b bool) string {
	if b {
		return "1"
	}
	return "0"
}

// ensureModel makes sure a model of the current path condition is cached.
func (c *PathCtx) ensureModel() {
	if c.eval != nil {
		return
	}
	r, m := c.check(nil)
	if r != smt.Sat {
		abortPath("inconclusive", "path condition became unsatisfiable (engine bug)")
	}
	c.setModel(m)
}

func (c *PathCtx) inputsFromModel(m *smt.Model) map[string]uint64 {
	res := map[string]uint64{}
	for _, in := range c.inputs {
		if isIntTerm(in.t) {
			if v := m.Ints[in.name]; v != nil {
				res[in.name] = uint64OfInt(v, in.k)
			} else {
				res[in.name] = 0
			}
			continue
		}
		res[in.name] = m.BV[in.name]
	}
	return res
}

func (c *PathCtx) recordViolation(kind, label, pos string, m *smt.Model) {
	c.Violations = append(c.Violations, Violation{
		Label: label, Kind: kind, Inputs: c.inputsFromModel(m), Pos: pos,
		Prefix: string(c.decisions),
	})
}

// doAssert implements sym.Assert.
func (c *PathCtx) doAssert(cond value, label, pos string) {
	switch x := cond.(type) {
	case bool:
		if !x {
			c.ensureModel()
			c.recordViolation("assert", label, pos, c.model)
			abortPath("violation", "assertion %q failed (concrete) at %s", label, pos)
		}
	case sv:
		t := x.t
		if v, ok := c.memoGet(t); ok {
			if v {
				return
			}
		}
		if c.replaying() {
			c.assume(t) // checked by the forking path under the same path condition
			return
		}
		if mv, ok := c.modelSays(t); ok && !mv {
			c.recordViolation("assert", label, pos, c.model)
		} else {
			r, m := c.check(smt.Not(t))
			if r == smt.Sat {
				c.recordViolation("assert", label, pos, m)
			}
			if c.LogQueries {
				c.logQuery(smt.Not(t), label, r)
			}
			if r == smt.Unsat {
				c.assume(t)
				return
			}
		}
		// continue under the assumption that the assertion holds, if possible
		if mv, ok := c.modelSays(t); ok && mv {
			c.assume(t)
			return
		}
		r, m := c.check(t)
		if r != smt.Sat {
			abortPath("violation", "assertion %q fails on the whole path", label)
		}
		c.setModel(m)
		c.assume(t)
	default:
		panic(fmt.Sprintf("sym.Assert: bad condition %T", cond))
	}
}

// doAssume implements sym.Assume.
func (c *PathCtx) doAssume(cond value) {
	switch x := cond.(type) {
	case bool:
		if !x {
			abortPath("assume", "assumption false")
		}
	case sv:
		t := x.t
		if v, ok := c.memoGet(t); ok {
			if !v {
				abortPath("assume", "assumption infeasible")
			}
			return
		}
		if c.replaying() {
			c.assume(t)
			return
		}
		if mv, ok := c.modelSays(t); ok && mv {
			c.assume(t)
			return
		}
		r, m := c.check(t)
		if r != smt.Sat {
			abortPath("assume", "assumption infeasible")
		}
		c.setModel(m)
		c.assume(t)
	}
}

func (c *PathCtx) logQuery(extra *smt.Term, label string, r smt.Result) {
	body, _ := c.script(extra)
	script := "; label=" + label + " expected=" + r.String() + "\n" + body + "(check-sat)\n"
	c.QueryLog = append(c.QueryLog, script)
}

// newInput declares (or returns) the named symbolic input of kind k.
func (c *PathCtx) newInput(name string, k types.BasicKind) value {
	if c.IntMode && k != types.Bool {
		return c.newIntInput(name, k)
	}
	if i, ok := c.inputByName[name]; ok {
		in := c.inputs[i]
		if in.k != k {
			abortPath("inconclusive", "harness error: input %q declared with two kinds", name)
		}
		return sv{in.t, k}
	}
	t := smt.Var(name, kindWidth(k))
	c.inputByName[name] = len(c.inputs)
	c.inputs = append(c.inputs, inputVar{name, k, t})
	return sv{t, k}
}

// concretize forces a symbolic integer to a concrete value by forking on
// candidate values proposed by the model.
func (c *PathCtx) concretize(v value) value {
	x, ok := v.(sv)
	if !ok {
		return v
	}
	for {
		if x.k != types.Bool {
			cv := c.proposal(func() uint64 {
				c.ensureModel()
				return evalU64(c.eval, x)
			})
			if c.branch(eqConst(x.t, x.k, cv)) {
				return constOfKind(cv, x.k)
			}
		} else {
			return c.branch(x.t)
		}
	}
}

// concretizeInRange: for an index known to be in [0,n): enumerate in order.
func (c *PathCtx) concretizeIndex(v value, n int) int {
	x, ok := v.(sv)
	if !ok {
		return int(asInt64(v))
	}
	for j := 0; j < n-1; j++ {
		if c.branch(eqConst(x.t, x.k, uint64(j))) {
			return j
		}
	}
	// must be n-1 (caller established range)
	c.assume(eqConst(x.t, x.k, uint64(n-1)))
	return n - 1
}

// inRange branches on 0 <= idx < n for a symbolic index; returns whether in range.
func (c *PathCtx) inRange(x sv, n int) bool { return c.branch(rangeTerm(x, n)) }

// rangeTerm: 0 <= x < n for either sort.
func rangeTerm(x sv, n int) *smt.Term {
	if isIntTerm(x.t) {
		return smt.And(smt.ILe(smt.IntConst(big.NewInt(0)), x.t), smt.ILt(x.t, smt.IntConst(big.NewInt(int64(n)))))
	}
	w := x.t.W
	var in *smt.Term
	if kindSigned(x.k) {
		in = smt.And(smt.SLe(smt.Const(w, 0), x.t), smt.SLt(x.t, smt.Const(w, uint64(n))))
	} else {
		in = smt.ULt(x.t, smt.Const(w, uint64(n)))
	}
	return in
}

// index resolves a possibly-symbolic index into a concrete one, raising the
// target's index-out-of-range panic on the infeasible side.
func (c *PathCtx) index(v value, n int) int {
	x, ok := v.(sv)
	if !ok {
		i := asInt64(v)
		if i < 0 || i >= int64(n) {
			panic(runtimeError(fmt.Sprintf("index out of range [%d] with length %d", i, n)))
		}
		return int(i)
	}
	if n == 0 || !c.inRange(x, n) {
		panic(runtimeError(fmt.Sprintf("index out of range [symbolic] with length %d", n)))
	}
	return c.concretizeIndex(x, n)
}

type runtimeError string

func (e runtimeError) Error() string { return "runtime error: " + string(e) }
func (e runtimeError) RuntimeError() {}

// sortedFuncs returns function names with instruction counts (repo module only).
func (c *PathCtx) funcStats(modPrefix string) map[string]int64 {
	res := map[string]int64{}
	for f, n := range c.Funcs {
		name := f.String()
		if f.Pkg != nil && strings.HasPrefix(f.Pkg.Pkg.Path(), modPrefix) || strings.Contains(name, modPrefix) {
			res[name] += n
		}
	}
	return res
}

func sortedKeys(m map[string]bool) []string {
	r := make([]string, 0, len(m))
	for k := range m {
		r = append(r, k)
	}
	sort.Strings(r)
	return r
}
