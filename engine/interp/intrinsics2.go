package interp

// Intrinsics for reflection-based helpers of the repository and for the
// third-party RLP codec (modelled as a lossless opaque codec).

import (
	"encoding/binary"
	"fmt"
	"go/token"
	"go/types"
	"reflect"

	"golang.org/x/tools/go/ssa"
)

const repoMod = "github.com/Fantom-foundation/lachesis-base/"

func init() {
	for k, v := range map[string]externalFn{
		repoMod + "kvdb/table.MigrateTables":                extMigrateTables,
		repoMod + "kvdb/table.MigrateCaches":                extMigrateCaches,
		"github.com/ethereum/go-ethereum/rlp.EncodeToBytes": extRlpEncodeToBytes,
		"github.com/ethereum/go-ethereum/rlp.DecodeBytes":   extRlpDecodeBytes,
		"sort.Slice":       extSortSlice,
		"sort.SliceStable": extSortSlice,
	} {
		externals[k] = v
	}
}

func structOf(v value) (structure, *types.Struct) {
	i := v.(iface)
	ptr := i.v.(*value)
	st := i.t.Underlying().(*types.Pointer).Elem().Underlying().(*types.Struct)
	return (*ptr).(structure), st
}

// MigrateTables(s interface{}, db kvdb.Store): field tagged `table:"x"` := table.New(db, []byte("x")) (or nil)
func extMigrateTables(fr *frame, args []value) value {
	s, st := structOf(args[0])
	db := args[1].(iface)
	tablePkg := fr.i.prog.ImportedPackage(repoMod + "kvdb/table")
	newFn := tablePkg.Func("New")
	tableT := types.NewPointer(tablePkg.Type("Table").Type())
	for i := 0; i < st.NumFields(); i++ {
		tag := reflect.StructTag(st.Tag(i)).Get("table")
		if tag == "" || tag == "-" {
			continue
		}
		if db.t == nil {
			s[i] = zero(st.Field(i).Type())
			continue
		}
		prefix := make([]value, len(tag))
		for j := 0; j < len(tag); j++ {
			prefix[j] = tag[j]
		}
		t := call(fr.i, fr, 0, newFn, []value{db, prefix})
		s[i] = iface{t: tableT, v: t}
	}
	return nil
}

// MigrateCaches(c interface{}, get func() interface{}): field tagged `cache:"..."` := get()
func extMigrateCaches(fr *frame, args []value) value {
	s, st := structOf(args[0])
	for i := 0; i < st.NumFields(); i++ {
		tag := reflect.StructTag(st.Tag(i)).Get("cache")
		if tag == "" {
			continue
		}
		var got iface
		if !isNilFunc(args[1]) {
			got = call(fr.i, fr, 0, args[1], nil).(iface)
		}
		if got.t == nil {
			s[i] = zero(st.Field(i).Type())
		} else if _, isIface := st.Field(i).Type().Underlying().(*types.Interface); isIface {
			s[i] = got
		} else {
			s[i] = got.v
		}
	}
	return nil
}

func isNilFunc(v value) bool {
	f, ok := v.(*ssa.Function)
	return ok && f == nil
}

// ---- opaque RLP codec ----

func deepCopy(v value) value {
	switch v := v.(type) {
	case *value:
		if v == nil {
			return v
		}
		c := deepCopy(*v)
		return &c
	case []value:
		if v == nil {
			return v
		}
		r := make([]value, len(v))
		for i := range v {
			r[i] = deepCopy(v[i])
		}
		return r
	case structure:
		r := make(structure, len(v))
		for i := range v {
			r[i] = deepCopy(v[i])
		}
		return r
	case array:
		r := make(array, len(v))
		for i := range v {
			r[i] = deepCopy(v[i])
		}
		return r
	case iface:
		return iface{v.t, deepCopy(v.v)}
	case *omap:
		if v == nil {
			return v
		}
		r := &omap{keyType: v.keyType, idx: map[int][]int{}}
		for i := range v.keys {
			if v.live[i] {
				r.insert(deepCopy(v.keys[i]), deepCopy(v.vals[i]))
			}
		}
		return r
	}
	return v
}

func rlpError(fr *frame, msg string) value {
	return callByName(fr, "errors", "New", []value{msg})
}

func extRlpEncodeToBytes(fr *frame, args []value) value {
	v := args[0].(iface)
	cur.rlpBlobs = append(cur.rlpBlobs, iface{v.t, deepCopy(v.v)})
	id := uint64(len(cur.rlpBlobs))
	var b [9]byte
	b[0] = 0xFE
	binary.BigEndian.PutUint64(b[1:], id)
	out := make([]value, 9)
	for i := range b {
		out[i] = b[i]
	}
	return tuple{out, iface{}}
}

func extRlpDecodeBytes(fr *frame, args []value) value {
	b := args[0].([]value)
	if len(b) != 9 {
		return rlpError(fr, "rlp (opaque codec): unknown bytes")
	}
	var raw [9]byte
	for i := range b {
		x, ok := b[i].(uint8)
		if !ok {
			unsupported("rlp.DecodeBytes of symbolic bytes")
		}
		raw[i] = x
	}
	id := binary.BigEndian.Uint64(raw[1:])
	if raw[0] != 0xFE || id == 0 || id > uint64(len(cur.rlpBlobs)) {
		return rlpError(fr, "rlp (opaque codec): unknown bytes")
	}
	src := cur.rlpBlobs[id-1]
	dst := args[1].(iface)
	dptr, ok := dst.v.(*value)
	if !ok || dptr == nil {
		return rlpError(fr, "rlp: decode target must be a non-nil pointer")
	}
	elemT := dst.t.Underlying().(*types.Pointer).Elem()
	// the encoded value may have been a pointer to T or a T
	sv := deepCopy(src.v)
	if sp, isPtr := src.t.Underlying().(*types.Pointer); isPtr && types.Identical(sp.Elem(), elemT) {
		p := sv.(*value)
		if p == nil {
			return rlpError(fr, "rlp: nil pointer")
		}
		store(elemT, dptr, *p)
	} else if types.Identical(src.t, elemT) {
		store(elemT, dptr, sv)
	} else {
		return rlpError(fr, fmt.Sprintf("rlp (opaque codec): type mismatch %s vs %s", src.t, elemT))
	}
	return iface{}
}

// sort.Slice(x, less): insertion sort driven by the less closure (the real
// implementation uses insertion sort below 12 elements, so for the sizes
// explored here this is the real algorithm; comparisons may fork).
func extSortSlice(fr *frame, args []value) value {
	xs := args[0].(iface).v.([]value)
	less := args[1]
	lt := func(i, j int) bool {
		r := call(fr.i, fr, 0, less, []value{i, j})
		switch r := r.(type) {
		case bool:
			return r
		case sv:
			return cur.branch(r.t)
		}
		panic("sort.Slice: less returned non-bool")
	}
	if len(xs) > 12 {
		unsupported("sort.Slice over %d elements", len(xs))
	}
	for i := 1; i < len(xs); i++ {
		for j := i; j > 0 && lt(j, j-1); j-- {
			xs[j], xs[j-1] = xs[j-1], xs[j]
		}
	}
	return nil
}

// math/bits intrinsics over terms (the pure-Go versions branch six times per call)
func bitsLen(w int) externalFn {
	return func(fr *frame, args []value) value {
		x, ok := args[0].(sv)
		if !ok {
			v := asUint64(args[0])
			n := 0
			for v != 0 {
				n++
				v >>= 1
			}
			return n
		}
		if isIntTerm(x.t) {
			unsupported("math/bits.Len on an Int-mode value")
		}
		r := smtConstInt(0)
		for i := 0; i < w && i < x.t.W; i++ {
			bit := smtBit(x.t, i)
			r = smtIte(bit, smtConstInt(uint64(i+1)), r)
		}
		return fromTerm(r, types.Int)
	}
}

func init() {
	externals["math/bits.Len"] = bitsLen(64)
	externals["math/bits.Len64"] = bitsLen(64)
	externals["math/bits.Len32"] = bitsLen(32)
	externals["math/bits.Len16"] = bitsLen(16)
	externals["math/bits.Len8"] = bitsLen(8)
}

func init() {
	externals["(*strings.Builder).copyCheck"] = noop
	externals["(*strings.Builder).String"] = func(fr *frame, args []value) value {
		b := (*args[0].(*value)).(structure)
		buf, _ := b[1].([]value)
		return normalizeStr(buf)
	}
	externals["strings.Join"] = func(fr *frame, args []value) value {
		elems := args[0].([]value)
		sep := strBytes(args[1])
		var out []value
		for i, e := range elems {
			if i > 0 {
				out = append(out, sep...)
			}
			out = append(out, strBytes(e)...)
		}
		return normalizeStr(out)
	}
	externals["github.com/status-im/keycard-go/hexutils.BytesToHex"] = func(fr *frame, args []value) value {
		const hexd = "0123456789ABCDEF"
		var sb []byte
		for _, e := range args[0].([]value) {
			b, ok := e.(uint8)
			if !ok {
				return "<symbolic bytes>"
			}
			sb = append(sb, hexd[b>>4], hexd[b&15])
		}
		return string(sb)
	}
}

// sync/atomic: plain memory operations (execution is single-threaded)
func init() {
	load := func(fr *frame, args []value) value { return *args[0].(*value) }
	store := func(fr *frame, args []value) value { *args[0].(*value) = args[1]; return nil }
	add := func(fr *frame, args []value) value {
		p := args[0].(*value)
		*p = binop(token.ADD, nil, *p, args[1])
		return *p
	}
	swap := func(fr *frame, args []value) value {
		p := args[0].(*value)
		old := *p
		*p = args[1]
		return old
	}
	cas := func(fr *frame, args []value) value {
		p := args[0].(*value)
		eq := binop(token.EQL, nil, *p, args[1])
		ok := false
		switch e := eq.(type) {
		case bool:
			ok = e
		case sv:
			ok = cur.branch(e.t)
		}
		if ok {
			*p = args[2]
		}
		return ok
	}
	for _, t := range []string{"Int32", "Int64", "Uint32", "Uint64", "Uintptr", "Pointer"} {
		externals["sync/atomic.Load"+t] = load
		externals["sync/atomic.Store"+t] = store
		externals["sync/atomic.Swap"+t] = swap
		externals["sync/atomic.CompareAndSwap"+t] = cas
		if t != "Pointer" {
			externals["sync/atomic.Add"+t] = add
		}
	}
}

// fmt.Sscanf on concrete input and format: the real implementation, writing into the interpreter's cells.
func init() {
	externals["fmt.Sscanf"] = func(fr *frame, args []value) value {
		in, ok1 := args[0].(string)
		format, ok2 := args[1].(string)
		if !ok1 || !ok2 {
			unsupported("fmt.Sscanf on symbolic input")
		}
		ptrs := args[2].([]value)
		gos := make([]interface{}, len(ptrs))
		for i, p := range ptrs {
			cell := p.(iface).v.(*value)
			switch (*cell).(type) {
			case int64:
				gos[i] = new(int64)
			case string:
				gos[i] = new(string)
			case int:
				gos[i] = new(int)
			case uint64:
				gos[i] = new(uint64)
			default:
				unsupported("fmt.Sscanf into %T", *cell)
			}
		}
		n, err := fmt.Sscanf(in, format, gos...)
		for i, p := range ptrs {
			cell := p.(iface).v.(*value)
			switch g := gos[i].(type) {
			case *int64:
				*cell = *g
			case *string:
				*cell = *g
			case *int:
				*cell = *g
			case *uint64:
				*cell = *g
			}
		}
		if err != nil {
			return tuple{n, callByName(fr, "errors", "New", []value{err.Error()})}
		}
		return tuple{n, iface{}}
	}
}
