// Copyright 2013 The Go Authors. All rights reserved.
// Use of this source code is governed by a BSD-style
// license that can be found in the LICENSE file.

package interp

// Values
//
// All interpreter values are "boxed" in the empty interface, value.
// The range of possible dynamic types within value are:
//
// - bool
// - numbers (all built-in int/float/complex types are distinguished)
// - string
// - map[value]value --- maps for which  usesBuiltinMap(keyType)
//   *hashmap        --- maps for which !usesBuiltinMap(keyType)
// - chan value
// - []value --- slices
// - iface --- interfaces.
// - structure --- structs.  Fields are ordered and accessed by numeric indices.
// - array --- arrays.
// - *value --- pointers.  Careful: *value is a distinct type from *array etc.
// - *ssa.Function \
//   *ssa.Builtin   } --- functions.  A nil 'func' is always of type *ssa.Function.
//   *closure      /
// - tuple --- as returned by Return, Next, "value,ok" modes, etc.
// - iter --- iterators from 'range' over map or string.
// - bad --- a poison pill for locals that have gone out of scope.
// - rtype -- the interpreter's concrete implementation of reflect.Type
// - **deferred -- the address of a frame's defer stack for a Defer._Stack.
//
// Note that nil is not on this list.
//
// Pay close attention to whether or not the dynamic type is a pointer.
// The compiler cannot help you since value is an empty interface.

import (
	"bytes"
	"fmt"
	"go/types"
	"io"
	"strings"
	"sync"
	"unsafe"

	"golang.org/x/tools/go/ssa"
	"golang.org/x/tools/go/types/typeutil"
)

type value interface{}

type tuple []value

type array []value

type iface struct {
	t types.Type // never an "untyped" type
	v value
}

type structure []value

// For map, array, *array, slice, string or channel.
type iter interface {
	// next returns a Tuple (key, value, ok).
	// key and value are unaliased, e.g. copies of the sequence element.
	next() tuple
}

type closure struct {
	Fn  *ssa.Function
	Env []value
}

type bad struct{}

type rtype struct {
	t types.Type
}

// Hash functions and equivalence relation:

// hashString computes the FNV hash of s.
func hashString(s string) int {
	var h uint32
	for i := 0; i < len(s); i++ {
		h ^= uint32(s[i])
		h *= 16777619
	}
	return int(h)
}

var (
	mu     sync.Mutex
	hasher = typeutil.MakeHasher()
)

// hashType returns a hash for t such that
// types.Identical(x, y) => hashType(x) == hashType(y).
func hashType(t types.Type) int {
	return int(hasher.Hash(t))
}

// (unused since all maps are omaps) usesBuiltinMap returns true if the built-in hash function and
// equivalence relation for type t are consistent with those of the
// interpreter's representation of type t.  Such types are: all basic
// types (bool, numbers, string), pointers and channels.
//
// usesBuiltinMap returns false for types that require a custom map
// implementation: interfaces, arrays and structs.
//
// Panic ensues if t is an invalid map key type: function, map or slice.
func usesBuiltinMap(t types.Type) bool {
	switch t := t.(type) {
	case *types.Basic, *types.Chan, *types.Pointer:
		return true
	case *types.Named, *types.Alias:
		return usesBuiltinMap(t.Underlying())
	case *types.Interface, *types.Array, *types.Struct:
		return false
	}
	panic(fmt.Sprintf("invalid map key type: %T", t))
}

func (x array) eq(t types.Type, _y interface{}) bool {
	y := _y.(array)
	tElt := t.Underlying().(*types.Array).Elem()
	for i, xi := range x {
		if !equals(tElt, xi, y[i]) {
			return false
		}
	}
	return true
}

func (x array) hash(t types.Type) int {
	h := 0
	tElt := t.Underlying().(*types.Array).Elem()
	for _, xi := range x {
		h += hash(t, tElt, xi)
	}
	return h
}

func (x structure) eq(t types.Type, _y interface{}) bool {
	y := _y.(structure)
	tStruct := t.Underlying().(*types.Struct)
	for i, n := 0, tStruct.NumFields(); i < n; i++ {
		if f := tStruct.Field(i); f.Name() != "_" {
			if !equals(f.Type(), x[i], y[i]) {
				return false
			}
		}
	}
	return true
}

func (x structure) hash(t types.Type) int {
	tStruct := t.Underlying().(*types.Struct)
	h := 0
	for i, n := 0, tStruct.NumFields(); i < n; i++ {
		if f := tStruct.Field(i); f.Name() != "_" {
			h += hash(t, f.Type(), x[i])
		}
	}
	return h
}

// nil-tolerant variant of types.Identical.
func sameType(x, y types.Type) bool {
	if x == nil {
		return y == nil
	}
	return y != nil && types.Identical(x, y)
}

func (x iface) eq(t types.Type, _y interface{}) bool {
	y := _y.(iface)
	return sameType(x.t, y.t) && (x.t == nil || equals(x.t, x.v, y.v))
}

func (x iface) hash(outer types.Type) int {
	return hashType(x.t)*8581 + hash(outer, x.t, x.v)
}

func (x rtype) hash(_ types.Type) int {
	return hashType(x.t)
}

func (x rtype) eq(_ types.Type, y interface{}) bool {
	return types.Identical(x.t, y.(rtype).t)
}

// equals returns true iff x and y are equal according to Go's
// linguistic equivalence relation for type t.  With symbolic parts the
// comparison is decided by branching.
func equals(t types.Type, x, y value) bool {
	e := eqTerm(t, x, y)
	if e.IsConst() {
		return e.V == 1
	}
	return cur.branch(e)
}

// Returns an integer hash of x such that equals(x, y) => hash(x) == hash(y).
// The outer type is used only for the "unhashable" panic message.
func hash(outer, t types.Type, x value) int {
	switch x := x.(type) {
	case bool:
		if x {
			return 1
		}
		return 0
	case int:
		return x
	case int8:
		return int(x)
	case int16:
		return int(x)
	case int32:
		return int(x)
	case int64:
		return int(x)
	case uint:
		return int(x)
	case uint8:
		return int(x)
	case uint16:
		return int(x)
	case uint32:
		return int(x)
	case uint64:
		return int(x)
	case uintptr:
		return int(x)
	case float32:
		return int(x)
	case float64:
		return int(x)
	case complex64:
		return int(real(x))
	case complex128:
		return int(real(x))
	case string:
		return hashString(x)
	case *value:
		return int(uintptr(unsafe.Pointer(x)))
	case *ochan:
		return int(uintptr(unsafe.Pointer(x)))
	case structure:
		return x.hash(t)
	case array:
		return x.hash(t)
	case iface:
		return x.hash(t)
	case rtype:
		return x.hash(t)
	}
	panic(fmt.Sprintf("unhashable type %v", outer))
}

// reflect.Value struct values don't have a fixed shape, since the
// payload can be a scalar or an aggregate depending on the instance.
// So store (and load) can't simply use recursion over the shape of the
// rhs value, or the lhs, to copy the value; we need the static type
// information.  (We can't make reflect.Value a new basic data type
// because its "structness" is exposed to Go programs.)

// load returns the value of type T in *addr.
func load(T types.Type, addr *value) value {
	switch T := T.Underlying().(type) {
	case *types.Struct:
		v := (*addr).(structure)
		a := make(structure, len(v))
		for i := range a {
			a[i] = load(T.Field(i).Type(), &v[i])
		}
		return a
	case *types.Array:
		v := (*addr).(array)
		a := make(array, len(v))
		for i := range a {
			a[i] = load(T.Elem(), &v[i])
		}
		return a
	default:
		return *addr
	}
}

// store stores value v of type T into *addr.
func store(T types.Type, addr *value, v value) {
	switch T := T.Underlying().(type) {
	case *types.Struct:
		lhs := (*addr).(structure)
		rhs := v.(structure)
		for i := range lhs {
			store(T.Field(i).Type(), &lhs[i], rhs[i])
		}
	case *types.Array:
		lhs := (*addr).(array)
		rhs := v.(array)
		for i := range lhs {
			store(T.Elem(), &lhs[i], rhs[i])
		}
	default:
		*addr = v
	}
}

// Prints in the style of built-in println.
// (More or less; in gc println is actually a compiler intrinsic and
// can distinguish println(1) from println(interface{}(1)).)
func writeValue(buf *bytes.Buffer, v value) {
	switch v := v.(type) {
	case nil, bool, int, int8, int16, int32, int64, uint, uint8, uint16, uint32, uint64, uintptr, float32, float64, complex64, complex128, string:
		fmt.Fprintf(buf, "%v", v)

	case sv:
		fmt.Fprintf(buf, "<sym %s>", v.t.String())

	case sstr:
		buf.WriteString("<symstr ")
		for _, e := range v {
			writeValue(buf, e)
			buf.WriteString(" ")
		}
		buf.WriteString(">")

	case *omap:
		buf.WriteString("map[")
		sep := ""
		if v != nil {
			for i, k := range v.keys {
				if !v.live[i] {
					continue
				}
				buf.WriteString(sep)
				sep = " "
				writeValue(buf, k)
				buf.WriteString(":")
				writeValue(buf, v.vals[i])
			}
		}
		buf.WriteString("]")

	case *ochan:
		fmt.Fprintf(buf, "%p", v) // (an address)

	case *value:
		if v == nil {
			buf.WriteString("<nil>")
		} else {
			fmt.Fprintf(buf, "%p", v)
		}

	case iface:
		fmt.Fprintf(buf, "(%s, ", v.t)
		writeValue(buf, v.v)
		buf.WriteString(")")

	case structure:
		buf.WriteString("{")
		for i, e := range v {
			if i > 0 {
				buf.WriteString(" ")
			}
			writeValue(buf, e)
		}
		buf.WriteString("}")

	case array:
		buf.WriteString("[")
		for i, e := range v {
			if i > 0 {
				buf.WriteString(" ")
			}
			writeValue(buf, e)
		}
		buf.WriteString("]")

	case []value:
		buf.WriteString("[")
		for i, e := range v {
			if i > 0 {
				buf.WriteString(" ")
			}
			writeValue(buf, e)
		}
		buf.WriteString("]")

	case *ssa.Function, *ssa.Builtin, *closure:
		fmt.Fprintf(buf, "%p", v) // (an address)

	case rtype:
		buf.WriteString(v.t.String())

	case tuple:
		// Unreachable in well-formed Go programs
		buf.WriteString("(")
		for i, e := range v {
			if i > 0 {
				buf.WriteString(", ")
			}
			writeValue(buf, e)
		}
		buf.WriteString(")")

	default:
		fmt.Fprintf(buf, "<%T>", v)
	}
}

// Implements printing of Go values in the style of built-in println.
func toString(v value) string {
	var b bytes.Buffer
	writeValue(&b, v)
	return b.String()
}

// ------------------------------------------------------------------------
// Iterators

type stringIter struct {
	*strings.Reader
	i int
}

func (it *stringIter) next() tuple {
	okv := make(tuple, 3)
	ch, n, err := it.ReadRune()
	ok := err != io.EOF
	okv[0] = ok
	if ok {
		okv[1] = it.i
		okv[2] = ch
	}
	it.i += n
	return okv
}
