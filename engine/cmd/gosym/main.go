// gosym: bounded symbolic execution of Go harnesses over the real code of /repo.
//
//	gosym run    -pkg <rel-pkg> -harness <Func> [-workers N] [-out result.json] ...
//	gosym worker -pkg <rel-pkg> -harness <Func>      (internal: one interpreter + one solver)
package main

import (
	"bufio"
	"encoding/json"
	"flag"
	"fmt"
	"go/types"
	"io"
	"os"
	"os/exec"
	"path/filepath"
	"runtime"
	"runtime/pprof"
	"sort"
	"strings"
	"sync"
	"time"

	"gosym/interp"
	"gosym/smt"

	"golang.org/x/tools/go/packages"
	"golang.org/x/tools/go/ssa"
	"golang.org/x/tools/go/ssa/ssautil"
)

const modPath = "github.com/Fantom-foundation/lachesis-base"

type config struct {
	Repo        string
	HarnessDir  string
	Pkg         string
	Harness     string
	Tests       bool
	Solver      string
	TimeoutMs   int
	OneShotMs   int
	MaxSteps    int64
	MaxDec      int
	Known       string
	LogQueries  bool
	Workers     int
	MaxPaths    int
	WallS       int
	Out         string
	Witnesses   int
	Trace       bool
	Prefix      string
	ExtraPkgs   string
	NoReplay    bool
	ExpectViol  bool
	ReplayDir   string
	PropertyID  string
	QueryLogDir string
	File        string
}

func parseFlags(args []string) *config {
	c := &config{}
	fs := flag.NewFlagSet("gosym", flag.ExitOnError)
	fs.StringVar(&c.Repo, "repo", "/repo", "repository root")
	fs.StringVar(&c.HarnessDir, "harness-dir", "/verif/harness", "harness source root")
	fs.StringVar(&c.Pkg, "pkg", "", "package (relative to repo root) the harness is injected into")
	fs.StringVar(&c.Harness, "harness", "", "harness function name")
	fs.BoolVar(&c.Tests, "tests", false, "load the package's test variant (harness may use _test.go helpers)")
	fs.StringVar(&c.Solver, "solver", "libz3", "solver backend: libz3 (in-process z3 5.1) | z3-new | z3 (pipe)")
	fs.IntVar(&c.TimeoutMs, "timeout-ms", 3000, "incremental per-query solver timeout")
	fs.IntVar(&c.OneShotMs, "oneshot-ms", 60000, "timeout of the one-shot fallback query")
	fs.Int64Var(&c.MaxSteps, "max-steps", 0, "per-path instruction budget")
	fs.IntVar(&c.MaxDec, "max-decisions", 0, "per-path decision cap (unwinding bound)")
	fs.StringVar(&c.Known, "known", "", "comma-separated open known-finding ids")
	fs.BoolVar(&c.LogQueries, "log-queries", false, "keep standalone scripts of assertion queries")
	fs.IntVar(&c.Workers, "workers", 8, "worker processes")
	fs.IntVar(&c.MaxPaths, "max-paths", 200000, "path cap (exceeding it is inconclusive)")
	fs.IntVar(&c.WallS, "wall-s", 1500, "wall-clock cap in seconds (exceeding it is inconclusive)")
	fs.StringVar(&c.Out, "out", "", "result JSON file")
	fs.IntVar(&c.Witnesses, "witnesses", 8, "completed paths whose solver model is replayed natively")
	fs.BoolVar(&c.Trace, "trace", false, "trace instructions (worker)")
	fs.StringVar(&c.Prefix, "prefix", "", "run a single path with this decision prefix (debug)")
	fs.BoolVar(&c.NoReplay, "no-replay", false, "skip native replay")
	fs.StringVar(&c.ReplayDir, "replay-dir", "/verif/replay", "where counterexample inputs are written")
	fs.StringVar(&c.PropertyID, "property", "", "property id (for replay file names)")
	fs.StringVar(&c.File, "file", "", "replay file (replay-file)")
	fs.StringVar(&c.QueryLogDir, "query-log-dir", "", "write assertion query scripts here (for solver diff)")
	fs.Parse(args)
	return c
}

func main() {
	if len(os.Args) < 2 {
		fmt.Fprintln(os.Stderr, "usage: gosym run|worker|one ...")
		os.Exit(2)
	}
	c := parseFlags(os.Args[2:])
	switch os.Args[1] {
	case "worker":
		worker(c)
	case "run":
		os.Exit(run(c))
	case "one":
		one(c)
	case "replay-file":
		os.Exit(replayFile(c))
	default:
		fmt.Fprintln(os.Stderr, "unknown subcommand")
		os.Exit(2)
	}
}

// ---------------------------------------------------------------------
// loading

// overlayFiles maps virtual paths under the repo to harness sources.
func overlayFiles(c *config) (map[string]string, []string, error) {
	ov := map[string]string{}
	var harnessFiles []string
	symDir := filepath.Join(c.HarnessDir, "sym")
	ents, err := os.ReadDir(symDir)
	if err != nil {
		return nil, nil, err
	}
	for _, e := range ents {
		if strings.HasSuffix(e.Name(), ".go") {
			ov[filepath.Join(c.Repo, "zzverif", "sym", e.Name())] = filepath.Join(symDir, e.Name())
		}
	}
	// shared helper packages: harness/zzlib/<name> -> <repo>/zzverif/<name>
	if libs, err := os.ReadDir(filepath.Join(c.HarnessDir, "zzlib")); err == nil {
		for _, l := range libs {
			if !l.IsDir() {
				continue
			}
			files, _ := os.ReadDir(filepath.Join(c.HarnessDir, "zzlib", l.Name()))
			for _, e := range files {
				if strings.HasSuffix(e.Name(), ".go") {
					ov[filepath.Join(c.Repo, "zzverif", l.Name(), e.Name())] = filepath.Join(c.HarnessDir, "zzlib", l.Name(), e.Name())
				}
			}
		}
	}
	// the in-package harness files of EVERY package are overlaid (a harness may call exported helpers that the
	// harness file of a package it imports defines); only those of c.Pkg are harness entry points
	filepath.Walk(c.HarnessDir, func(path string, info os.FileInfo, err error) error {
		if err != nil || info.IsDir() || !strings.HasSuffix(path, ".go") {
			return nil
		}
		rel, _ := filepath.Rel(c.HarnessDir, filepath.Dir(path))
		if rel == "sym" || rel == "zzlib" || strings.HasPrefix(rel, "zzlib"+string(filepath.Separator)) || rel == "." {
			return nil
		}
		ov[filepath.Join(c.Repo, rel, "zz_verif_"+filepath.Base(path))] = path
		if rel == c.Pkg {
			harnessFiles = append(harnessFiles, path)
		}
		return nil
	})
	if len(harnessFiles) == 0 {
		return nil, nil, fmt.Errorf("no harness files for package %s", c.Pkg)
	}
	sort.Strings(harnessFiles)
	return ov, harnessFiles, nil
}

func load(c *config) (*ssa.Program, *ssa.Function, error) {
	ovFiles, _, err := overlayFiles(c)
	if err != nil {
		return nil, nil, err
	}
	overlay := map[string][]byte{}
	for virt, real := range ovFiles {
		b, err := os.ReadFile(real)
		if err != nil {
			return nil, nil, err
		}
		overlay[virt] = b
	}
	cfg := &packages.Config{
		Mode:       packages.LoadAllSyntax,
		Dir:        c.Repo,
		Overlay:    overlay,
		BuildFlags: []string{"-tags=math_big_pure_go"},
		Tests:      c.Tests,
		Env:        append(os.Environ(), "GOFLAGS=-mod=mod", "GOPROXY=off", "GOSUMDB=off", "GOTOOLCHAIN=local"),
	}
	pkgPath := modPath + "/" + c.Pkg
	initial, err := packages.Load(cfg, pkgPath, modPath+"/zzverif/sym")
	if err != nil {
		return nil, nil, err
	}
	nerr := 0
	packages.Visit(initial, nil, func(p *packages.Package) {
		for _, e := range p.Errors {
			if nerr < 20 {
				fmt.Fprintf(os.Stderr, "load error: %s: %v\n", p.PkgPath, e)
			}
			nerr++
		}
	})
	if nerr > 0 {
		return nil, nil, fmt.Errorf("%d package load errors", nerr)
	}
	prog, _ := ssautil.AllPackages(initial, ssa.InstantiateGenerics)
	prog.Build()
	var fn *ssa.Function
	for _, p := range initial {
		if p.PkgPath != pkgPath {
			continue
		}
		if c.Tests && !strings.Contains(p.ID, ".test]") && len(initial) > 2 {
			// prefer the test variant when loaded with tests
			continue
		}
		sp := prog.Package(p.Types)
		if sp == nil {
			continue
		}
		if f := sp.Func(c.Harness); f != nil {
			fn = f
		}
	}
	if fn == nil {
		for _, p := range initial {
			if sp := prog.Package(p.Types); sp != nil && p.PkgPath == pkgPath {
				if f := sp.Func(c.Harness); f != nil {
					fn = f
				}
			}
		}
	}
	if fn == nil {
		return nil, nil, fmt.Errorf("harness %s not found in %s", c.Harness, pkgPath)
	}
	return prog, fn, nil
}

// ---------------------------------------------------------------------
// worker

type job struct {
	Prefix      string            `json:"prefix"`
	Model       map[string]uint64 `json:"model"`
	IntModel    map[string]string `json:"int_model"`
	WantWitness bool              `json:"want_witness"`
}

func solverCmd(c *config) []string {
	if c.Solver == "libz3" {
		return []string{"libz3"}
	}
	return []string{c.Solver, "-in"}
}

func newEngine(c *config) (*interp.Engine, *ssa.Function, error) {
	prog, fn, err := load(c)
	if err != nil {
		return nil, nil, err
	}
	s, err := smt.NewSolverLogic(solverCmd(c), c.TimeoutMs, os.Getenv("GOSYM_LOGIC"))
	if err != nil {
		return nil, nil, err
	}
	interp.OneShotTimeoutMs = c.OneShotMs
	e := &interp.Engine{Prog: prog, ModPath: modPath, Solver: s, Sizes: types.SizesFor("gc", "amd64"), Trace: c.Trace}
	return e, fn, nil
}

func pathOpts(c *config, want bool) interp.PathOpts {
	var known []string
	if c.Known != "" {
		known = strings.Split(c.Known, ",")
	}
	return interp.PathOpts{MaxSteps: c.MaxSteps, MaxDecisions: c.MaxDec, Known: known, LogQueries: c.LogQueries, WantWitness: want}
}

func worker(c *config) {
	if pf := os.Getenv("GOSYM_CPUPROFILE"); pf != "" {
		f, _ := os.Create(fmt.Sprintf("%s.%d", pf, os.Getpid()))
		pprof.StartCPUProfile(f)
		defer pprof.StopCPUProfile()
	}
	e, fn, err := newEngine(c)
	w := bufio.NewWriter(os.Stdout)
	enc := json.NewEncoder(w)
	if err != nil {
		enc.Encode(map[string]string{"fatal": err.Error()})
		w.Flush()
		os.Exit(2)
	}
	if os.Getenv("GOSYM_MEMSTATS") != "" {
		var ms runtime.MemStats
		runtime.GC()
		runtime.ReadMemStats(&ms)
		fmt.Fprintf(os.Stderr, "worker heap after load: alloc=%dMB sys=%dMB numgc=%d\n", ms.HeapAlloc>>20, ms.Sys>>20, ms.NumGC)
	}
	enc.Encode(map[string]string{"ready": fn.String()})
	w.Flush()
	sc := bufio.NewScanner(os.Stdin)
	sc.Buffer(make([]byte, 1<<20), 1<<28)
	for sc.Scan() {
		var j job
		if err := json.Unmarshal(sc.Bytes(), &j); err != nil {
			enc.Encode(map[string]string{"fatal": "bad job: " + err.Error()})
			w.Flush()
			os.Exit(2)
		}
		res := e.RunPath(fn, j.Prefix, j.Model, j.IntModel, pathOpts(c, j.WantWitness))
		enc.Encode(res)
		w.Flush()
	}
}

// one: run a single path in-process (debugging aid)
func one(c *config) {
	e, fn, err := newEngine(c)
	if err != nil {
		fmt.Fprintln(os.Stderr, err)
		os.Exit(2)
	}
	res := e.RunPath(fn, c.Prefix, nil, nil, pathOpts(c, true))
	b, _ := json.MarshalIndent(res, "", " ")
	fmt.Println(string(b))
}

// ---------------------------------------------------------------------
// coordinator

type workerProc struct {
	cmd   *exec.Cmd
	in    *bufio.Writer
	out   *bufio.Scanner
	stdin io.WriteCloser
}

type Result struct {
	Harness        string             `json:"harness"`
	Pkg            string             `json:"pkg"`
	Verdict        string             `json:"verdict"` // holds | violation | inconclusive | broken
	Reason         string             `json:"reason,omitempty"`
	Paths          map[string]int     `json:"paths"`
	PathsTotal     int                `json:"paths_total"`
	Forks          int                `json:"forks"`
	Steps          int64              `json:"steps"`
	NSat           int                `json:"nsat"`
	NUnsat         int                `json:"nunsat"`
	NUnknown       int                `json:"nunknown"`
	SolverS        float64            `json:"solver_s"`
	WallS          float64            `json:"wall_s"`
	LoadS          float64            `json:"load_s"`
	Reached        []string           `json:"reached"`
	Funcs          map[string]int64   `json:"funcs"`
	Stubs          []string           `json:"stubs"`
	Violations     []interp.Violation `json:"violations"`
	Confirmed      []ConfirmedViol    `json:"confirmed"`
	Unconfirmed    []interp.Violation `json:"unconfirmed"`
	Witnesses      []Witness          `json:"witnesses"`
	WitnessesOK    int                `json:"witnesses_ok"`
	WitnessesBad   []string           `json:"witnesses_bad"`
	WitnessRetries int                `json:"witness_retries,omitempty"`
	Inconclusive   []string           `json:"inconclusive_msgs"`
	MaxDecisions   int                `json:"max_decisions_seen"`
	Inputs         []string           `json:"inputs"`
	SolverVersion  string             `json:"solver_version"`
	QueryScripts   int                `json:"query_scripts"`
	Workers        int                `json:"workers"`
	PathWallS      float64            `json:"path_wall_s"`
	SlowestMs      float64            `json:"slowest_path_solver_ms"`
	SlowestPrefix  string             `json:"slowest_path_prefix"`
	SlowestQueries int                `json:"slowest_path_queries"`
}

type ConfirmedViol struct {
	Label  string            `json:"label"`
	Inputs map[string]uint64 `json:"inputs"`
	Replay string            `json:"replay"`
	Native string            `json:"native"`
}

type Witness struct {
	Inputs       map[string]uint64    `json:"inputs"`
	Observations []interp.Observation `json:"observations"`
	Decisions    string               `json:"decisions"`
}

func startWorker(c *config) (*workerProc, error) {
	self, _ := os.Executable()
	args := []string{"worker", "-repo", c.Repo, "-harness-dir", c.HarnessDir, "-pkg", c.Pkg, "-harness", c.Harness,
		"-solver", c.Solver, "-timeout-ms", fmt.Sprint(c.TimeoutMs), "-oneshot-ms", fmt.Sprint(c.OneShotMs), "-max-steps", fmt.Sprint(c.MaxSteps),
		"-max-decisions", fmt.Sprint(c.MaxDec), "-known", c.Known}
	if c.Tests {
		args = append(args, "-tests")
	}
	if c.LogQueries {
		args = append(args, "-log-queries")
	}
	cmd := exec.Command(self, args...)
	gogc, gmp := "400", "2"
	if v := os.Getenv("GOSYM_WORKER_GOGC"); v != "" {
		gogc = v
	}
	if v := os.Getenv("GOSYM_WORKER_PROCS"); v != "" {
		gmp = v
	}
	cmd.Env = append(os.Environ(), "GOGC="+gogc, "GOMAXPROCS="+gmp)
	cmd.Stderr = os.Stderr
	in, err := cmd.StdinPipe()
	if err != nil {
		return nil, err
	}
	out, err := cmd.StdoutPipe()
	if err != nil {
		return nil, err
	}
	if err := cmd.Start(); err != nil {
		return nil, err
	}
	sc := bufio.NewScanner(out)
	sc.Buffer(make([]byte, 1<<20), 1<<30)
	return &workerProc{cmd, bufio.NewWriter(in), sc, in}, nil
}

type wres struct {
	w   int
	res *interp.PathResult
	err error
}

func run(c *config) int {
	t0 := time.Now()
	res := &Result{Harness: c.Harness, Pkg: c.Pkg, Paths: map[string]int{}, Funcs: map[string]int64{}}
	fail := func(verdict, reason string) int {
		res.Verdict, res.Reason = verdict, reason
		res.WallS = time.Since(t0).Seconds()
		writeResult(c, res)
		fmt.Fprintf(os.Stderr, "[%s] %s: %s\n", c.Harness, verdict, reason)
		if verdict == "broken" {
			return 2
		}
		return 3
	}
	if c.Solver == "libz3" {
		res.SolverVersion = "libz3 5.1 in-process (one-shot fallback: z3-new 5.1 binary)"
	} else if v, err := exec.Command(c.Solver, "--version").Output(); err == nil {
		res.SolverVersion = strings.TrimSpace(string(v))
	}
	maxW := c.Workers
	var workers []*workerProc
	type readyMsg struct {
		w   *workerProc
		err error
	}
	readyCh := make(chan readyMsg, maxW)
	spawning := 0
	var allCmds []*exec.Cmd
	var cmdMu sync.Mutex
	spawn := func() {
		spawning++
		go func() {
			w, err := startWorker(c)
			if err == nil {
				cmdMu.Lock()
				allCmds = append(allCmds, w.cmd)
				cmdMu.Unlock()
			}
			if err != nil {
				readyCh <- readyMsg{nil, err}
				return
			}
			if !w.out.Scan() {
				readyCh <- readyMsg{nil, fmt.Errorf("worker died during load")}
				return
			}
			var hello map[string]string
			json.Unmarshal(w.out.Bytes(), &hello)
			if f, ok := hello["fatal"]; ok {
				readyCh <- readyMsg{nil, fmt.Errorf("worker: %s", f)}
				return
			}
			readyCh <- readyMsg{w, nil}
		}()
	}
	defer func() {
		cmdMu.Lock()
		defer cmdMu.Unlock()
		if os.Getenv("GOSYM_CPUPROFILE") != "" {
			for _, w := range workers {
				w.stdin.Close()
				w.cmd.Wait()
			}
			return
		}
		for _, cmd := range allCmds {
			cmd.Process.Kill()
			go cmd.Wait()
		}
	}()
	// first worker synchronously (also warms the build cache)
	spawn()
	rm := <-readyCh
	spawning--
	if rm.err != nil {
		return fail("broken", rm.err.Error())
	}
	workers = append(workers, rm.w)
	res.LoadS = time.Since(t0).Seconds()

	stack := []job{{Prefix: c.Prefix}}
	idle := []int{0}
	results := make(chan wres, maxW)
	busy := 0
	reached := map[string]bool{}
	stubs := map[string]bool{}
	inputs := map[string]bool{}
	var scripts []string
	overLimit := ""
	deadline := t0.Add(time.Duration(c.WallS) * time.Second)

	dispatch := func(w int, j job) {
		busy++
		go func() {
			wp := workers[w]
			b, _ := json.Marshal(j)
			wp.in.Write(b)
			wp.in.WriteByte('\n')
			wp.in.Flush()
			if !wp.out.Scan() {
				results <- wres{w, nil, fmt.Errorf("worker %d died on prefix %q", w, j.Prefix)}
				return
			}
			var pr interp.PathResult
			if err := json.Unmarshal(wp.out.Bytes(), &pr); err != nil {
				results <- wres{w, nil, fmt.Errorf("worker %d: bad result: %v: %.200s", w, err, wp.out.Bytes())}
				return
			}
			results <- wres{w, &pr, nil}
		}()
	}

	for len(stack) > 0 || busy > 0 {
		for len(stack) > 0 && len(idle) > 0 && overLimit == "" {
			j := stack[len(stack)-1]
			stack = stack[:len(stack)-1]
			j.WantWitness = len(res.Witnesses) < c.Witnesses
			w := idle[len(idle)-1]
			idle = idle[:len(idle)-1]
			dispatch(w, j)
		}
		// more work than workers: grow the pool
		if overLimit == "" && c.Prefix == "" {
			want := len(stack)/3 + 1
			if w2 := res.PathsTotal/25 + 1; w2 < want {
				want = w2 // do not pay for workers before the run has shown it is long
			}
			for want > len(workers)+spawning && len(workers)+spawning < maxW {
				spawn()
			}
		}
		if busy == 0 && (overLimit != "" || len(stack) == 0) {
			break
		}
		var r wres
		select {
		case rm := <-readyCh:
			spawning--
			if rm.err != nil {
				return fail("broken", rm.err.Error())
			}
			workers = append(workers, rm.w)
			idle = append(idle, len(workers)-1)
			continue
		case r = <-results:
		}
		busy--
		idle = append(idle, r.w)
		if r.err != nil {
			return fail("broken", r.err.Error())
		}
		pr := r.res
		res.PathsTotal++
		res.Paths[pr.Status]++
		res.Forks += pr.Forks
		res.Steps += pr.Steps
		res.NSat += pr.NSat
		res.NUnsat += pr.NUnsat
		res.NUnknown += pr.NUnknown
		res.SolverS += pr.SolverMs / 1000
		res.PathWallS += pr.WallMs / 1000
		if pr.SolverMs > res.SlowestMs {
			res.SlowestMs, res.SlowestPrefix, res.SlowestQueries = pr.SolverMs, pr.Decisions, pr.NSat+pr.NUnsat
		}
		if n := len(pr.Decisions); n > res.MaxDecisions {
			res.MaxDecisions = n
		}
		for _, l := range pr.Reached {
			reached[l] = true
		}
		for _, s := range pr.Stubs {
			stubs[s] = true
		}
		for _, s := range pr.Inputs {
			inputs[s] = true
		}
		for f, n := range pr.Funcs {
			res.Funcs[f] += n
		}
		scripts = append(scripts, pr.QueryLog...)
		res.Violations = append(res.Violations, pr.Violations...)
		if pr.Status == "inconclusive" || pr.Status == "blocked" {
			if len(res.Inconclusive) < 10 {
				res.Inconclusive = append(res.Inconclusive, fmt.Sprintf("[%s] %s (prefix %q)", pr.Status, pr.Msg, pr.Decisions))
			}
		}
		if pr.Status == "ok" && pr.Witness != nil && len(res.Witnesses) < c.Witnesses {
			res.Witnesses = append(res.Witnesses, Witness{pr.Witness, pr.Observations, pr.Decisions})
		}
		for _, p := range pr.Pending {
			stack = append(stack, job{Prefix: p.Prefix, Model: p.Model, IntModel: p.IntModel})
		}
		if res.PathsTotal >= c.MaxPaths && overLimit == "" {
			overLimit = fmt.Sprintf("path cap %d reached with %d prefixes pending", c.MaxPaths, len(stack))
		}
		if time.Now().After(deadline) && overLimit == "" {
			overLimit = fmt.Sprintf("wall-clock cap %ds reached with %d prefixes pending", c.WallS, len(stack))
		}
		if c.Prefix != "" && res.PathsTotal >= 1 {
			stack = nil // single-path debug mode
		}
	}
	res.Workers = len(workers)
	res.Reached = sortedSet(reached)
	res.Stubs = sortedSet(stubs)
	res.Inputs = sortedSet(inputs)
	res.WallS = time.Since(t0).Seconds()
	if c.QueryLogDir != "" && len(scripts) > 0 {
		os.MkdirAll(c.QueryLogDir, 0o755)
		for i, s := range scripts {
			os.WriteFile(filepath.Join(c.QueryLogDir, fmt.Sprintf("%s-%04d.smt2", c.Harness, i)), []byte(s), 0o644)
		}
		res.QueryScripts = len(scripts)
	}

	// native replay: violations must reproduce, sampled witnesses must agree
	if !c.NoReplay && (len(res.Violations) > 0 || len(res.Witnesses) > 0) {
		if err := replay(c, res); err != nil {
			return fail("inconclusive", "native replay failed to run: "+err.Error())
		}
	}
	res.WallS = time.Since(t0).Seconds()

	switch {
	case len(res.Confirmed) > 0:
		res.Verdict = "violation"
	case len(res.Unconfirmed) > 0:
		res.Verdict = "inconclusive"
		res.Reason = fmt.Sprintf("%d solver counterexample(s) did not reproduce natively (encoder or stub mismatch)", len(res.Unconfirmed))
	case len(res.Violations) > 0 && c.NoReplay:
		res.Verdict = "violation"
		res.Reason = "not replayed"
	case overLimit != "":
		res.Verdict, res.Reason = "inconclusive", overLimit
	case res.Paths["inconclusive"] > 0 || res.Paths["blocked"] > 0:
		res.Verdict = "inconclusive"
		res.Reason = strings.Join(res.Inconclusive, "; ")
	case len(res.WitnessesBad) > 0:
		res.Verdict = "inconclusive"
		res.Reason = "witness replay disagreed with the encoding: " + strings.Join(res.WitnessesBad, "; ")
	case res.Paths["ok"] == 0:
		res.Verdict, res.Reason = "broken", "vacuous: no path completed the harness"
	default:
		res.Verdict = "holds"
	}
	writeResult(c, res)
	fmt.Fprintf(os.Stderr, "[%s] %s paths=%d %v forks=%d sat=%d unsat=%d unknown=%d solver=%.1fs wall=%.1fs %s\n",
		c.Harness, res.Verdict, res.PathsTotal, res.Paths, res.Forks, res.NSat, res.NUnsat, res.NUnknown, res.SolverS, res.WallS, res.Reason)
	switch res.Verdict {
	case "holds":
		return 0
	case "violation":
		return 1
	case "broken":
		return 2
	}
	return 3
}

func sortedSet(m map[string]bool) []string {
	r := make([]string, 0, len(m))
	for k := range m {
		r = append(r, k)
	}
	sort.Strings(r)
	return r
}

func writeResult(c *config, res *Result) {
	b, _ := json.MarshalIndent(res, "", " ")
	if c.Out != "" {
		os.MkdirAll(filepath.Dir(c.Out), 0o755)
		os.WriteFile(c.Out, b, 0o644)
	} else {
		fmt.Println(string(b))
	}
}
