package main

// Native replay: the solver's assignments are run against the real build
// (go test with an overlay that injects the same harness file natively).

import (
	"encoding/json"
	"fmt"
	"go/ast"
	"go/parser"
	"go/token"
	"os"
	"os/exec"
	"path/filepath"
	"reflect"
	"strings"

	"gosym/interp"
)

type nativeCase struct {
	Harness string            `json:"harness"`
	Inputs  map[string]uint64 `json:"inputs"`
	Known   []string          `json:"known"`
}

type nativeOutcome struct {
	Harness      string      `json:"harness"`
	Failures     []string    `json:"failures"`
	Panic        string      `json:"panic"`
	AssumeFailed bool        `json:"assume_failed"`
	Observations [][2]string `json:"observations"`
	Reached      []string    `json:"reached"`
}

// harnessFuncs lists the niladic top-level functions Verif* of the harness files.
func harnessFuncs(files []string) (pkgName string, funcs []string, err error) {
	fset := token.NewFileSet()
	for _, f := range files {
		if strings.HasSuffix(f, "_test.go") {
			continue
		}
		af, err := parser.ParseFile(fset, f, nil, 0)
		if err != nil {
			return "", nil, err
		}
		pkgName = af.Name.Name
		for _, d := range af.Decls {
			fd, ok := d.(*ast.FuncDecl)
			if !ok || fd.Recv != nil || !strings.HasPrefix(fd.Name.Name, "Verif") {
				continue
			}
			if fd.Type.Params.NumFields() == 0 && fd.Type.Results.NumFields() == 0 {
				funcs = append(funcs, fd.Name.Name)
			}
		}
	}
	return
}

// nativeRun executes the cases natively and returns one outcome per case.
func nativeRun(c *config, cases []nativeCase) ([]nativeOutcome, string, error) {
	ovFiles, hfiles, err := overlayFiles(c)
	if err != nil {
		return nil, "", err
	}
	pkgName, funcs, err := harnessFuncs(hfiles)
	if err != nil {
		return nil, "", err
	}
	work, err := os.MkdirTemp(workRoot(), "replay-")
	if err != nil {
		return nil, "", err
	}
	defer os.RemoveAll(work)
	var sb strings.Builder
	fmt.Fprintf(&sb, "package %s\n\nimport (\n\t\"testing\"\n\n\tzzsym \"%s/zzverif/sym\"\n)\n\n", pkgName, modPath)
	sb.WriteString("func TestVerifReplay(t *testing.T) {\n\tzzsym.ReplayMain(t, map[string]func(){\n")
	for _, f := range funcs {
		fmt.Fprintf(&sb, "\t\t%q: %s,\n", f, f)
	}
	sb.WriteString("\t})\n}\n")
	testFile := filepath.Join(work, "replay_test.go")
	if err := os.WriteFile(testFile, []byte(sb.String()), 0o644); err != nil {
		return nil, "", err
	}
	ovFiles[filepath.Join(c.Repo, c.Pkg, "zz_verif_replay_test.go")] = testFile
	ovJSON, _ := json.Marshal(map[string]interface{}{"Replace": ovFiles})
	ovPath := filepath.Join(work, "overlay.json")
	os.WriteFile(ovPath, ovJSON, 0o644)
	inPath := filepath.Join(work, "in.json")
	outPath := filepath.Join(work, "out.json")
	b, _ := json.Marshal(cases)
	os.WriteFile(inPath, b, 0o644)
	env := append(os.Environ(), "GOFLAGS=-mod=mod", "GOPROXY=off", "GOSUMDB=off", "GOTOOLCHAIN=local",
		"VERIF_REPLAY_IN="+inPath, "VERIF_REPLAY_OUT="+outPath)
	// The test binary is built once per check invocation and package (VERIF_RUN_ID), from /repo's current tree.
	bin := filepath.Join(work, "replay.test")
	shared := false
	if id := os.Getenv("VERIF_RUN_ID"); id != "" {
		dir := filepath.Join(workRoot(), "testbin-"+id)
		os.MkdirAll(dir, 0o755)
		bin = filepath.Join(dir, strings.ReplaceAll(c.Pkg, "/", "_")+".test")
		shared = true
	}
	var out []byte
	var runErr error
	if _, err := os.Stat(bin); !shared || err != nil {
		tmpBin := bin + fmt.Sprintf(".%d", os.Getpid())
		build := exec.Command("go", "test", "-vet=off", "-c", "-o", tmpBin, "-overlay", ovPath, "./"+c.Pkg+"/")
		build.Dir = c.Repo
		build.Env = env
		if bout, err := build.CombinedOutput(); err != nil {
			return nil, string(bout), fmt.Errorf("native replay build failed (%v): %s", err, tail(string(bout), 3000))
		}
		os.Rename(tmpBin, bin)
	}
	run := exec.Command(bin, "-test.run", "^TestVerifReplay$", "-test.count=1", "-test.timeout", "600s")
	run.Dir = filepath.Join(c.Repo, c.Pkg)
	if st, err := os.Stat(run.Dir); err != nil || !st.IsDir() {
		run.Dir = c.Repo // virtual (overlay-only) package
	}
	run.Env = env
	out, runErr = run.CombinedOutput()
	data, err := os.ReadFile(outPath)
	if err != nil {
		return nil, string(out), fmt.Errorf("native replay produced no output (%v): %s", runErr, tail(string(out), 2000))
	}
	var outs []nativeOutcome
	if err := json.Unmarshal(data, &outs); err != nil {
		return nil, string(out), err
	}
	if len(outs) != len(cases) {
		return nil, string(out), fmt.Errorf("native replay returned %d outcomes for %d cases", len(outs), len(cases))
	}
	return outs, string(out), nil
}

func workRoot() string {
	d := "/verif/.work"
	os.MkdirAll(d, 0o755)
	return d
}

func tail(s string, n int) string {
	if len(s) > n {
		return s[len(s)-n:]
	}
	return s
}

func knownList(c *config) []string {
	if c.Known == "" {
		return nil
	}
	return strings.Split(c.Known, ",")
}

func replay(c *config, res *Result) error {
	var cases []nativeCase
	// violations: at most 2 per label
	perLabel := map[string]int{}
	var viol []interp.Violation
	for _, v := range res.Violations {
		if perLabel[v.Label] >= 2 {
			continue
		}
		perLabel[v.Label]++
		viol = append(viol, v)
		cases = append(cases, nativeCase{c.Harness, v.Inputs, knownList(c)})
	}
	for _, w := range res.Witnesses {
		cases = append(cases, nativeCase{c.Harness, w.Inputs, knownList(c)})
	}
	outs, _, err := nativeRun(c, cases)
	if err != nil {
		return err
	}
	for i, v := range viol {
		o := outs[i]
		ok := false
		native := ""
		switch v.Kind {
		case "assert":
			for _, f := range o.Failures {
				if f == v.Label {
					ok = true
				}
			}
			native = fmt.Sprintf("failures=%v panic=%q", o.Failures, o.Panic)
			if !ok && o.Panic != "" {
				// the native run died before reaching the assertion: still a real failure of the harness run
				native += " (native run panicked before the assertion)"
			}
		case "panic":
			ok = o.Panic != ""
			native = fmt.Sprintf("panic=%q", o.Panic)
		}
		if ok {
			os.MkdirAll(c.ReplayDir, 0o755)
			name := fmt.Sprintf("%s-%s-%d.json", c.PropertyID, c.Harness, len(res.Confirmed))
			path := filepath.Join(c.ReplayDir, name)
			b, _ := json.MarshalIndent(map[string]interface{}{
				"property": c.PropertyID, "pkg": c.Pkg, "harness": c.Harness, "label": v.Label,
				"inputs": v.Inputs, "known": knownList(c), "native_outcome": native,
				"how": "gosym replay-file / ./check <id> --replay <this file>",
			}, "", " ")
			os.WriteFile(path, b, 0o644)
			res.Confirmed = append(res.Confirmed, ConfirmedViol{v.Label, v.Inputs, path, native})
		} else {
			v.Pos += " native: " + native
			res.Unconfirmed = append(res.Unconfirmed, v)
		}
	}
	judge := func(w Witness, o nativeOutcome) []string {
		var bad []string
		if o.Panic != "" {
			bad = append(bad, "native panic: "+o.Panic)
		}
		if o.AssumeFailed {
			bad = append(bad, "native run violated an assumption")
		}
		if len(o.Failures) > 0 {
			bad = append(bad, fmt.Sprintf("native assertion failures %v", o.Failures))
		}
		var want [][2]string
		for _, ob := range w.Observations {
			want = append(want, [2]string{ob.Name, ob.Val})
		}
		if len(want) != len(o.Observations) || (len(want) > 0 && !reflect.DeepEqual(want, o.Observations)) {
			bad = append(bad, fmt.Sprintf("observations differ: engine %v native %v", want, o.Observations))
		}
		return bad
	}
	for i, w := range res.Witnesses {
		bad := judge(w, outs[len(viol)+i])
		// harnesses with real goroutines and timers are replayed against the wall clock: a disagreement is
		// re-run twice before it counts (a loaded machine must not turn into an "encoding mismatch")
		for try := 0; len(bad) > 0 && try < 2; try++ {
			again, _, err := nativeRun(c, []nativeCase{{c.Harness, w.Inputs, knownList(c)}})
			if err != nil || len(again) != 1 {
				break
			}
			bad = judge(w, again[0])
			if len(bad) == 0 {
				res.WitnessRetries++
			}
		}
		if len(bad) == 0 {
			res.WitnessesOK++
		} else {
			res.WitnessesBad = append(res.WitnessesBad, fmt.Sprintf("witness %v: %s", w.Inputs, strings.Join(bad, ", ")))
		}
	}
	return nil
}

// replayFile re-runs a recorded counterexample natively; exit 1 if it still fails.
func replayFile(c *config) int {
	data, err := os.ReadFile(c.File)
	if err != nil {
		fmt.Fprintln(os.Stderr, err)
		return 2
	}
	var rec struct {
		Property string            `json:"property"`
		Pkg      string            `json:"pkg"`
		Harness  string            `json:"harness"`
		Label    string            `json:"label"`
		Inputs   map[string]uint64 `json:"inputs"`
		Known    []string          `json:"known"`
	}
	if err := json.Unmarshal(data, &rec); err != nil {
		fmt.Fprintln(os.Stderr, err)
		return 2
	}
	c.Pkg, c.Harness = rec.Pkg, rec.Harness
	outs, log, err := nativeRun(c, []nativeCase{{rec.Harness, rec.Inputs, rec.Known}})
	if err != nil {
		fmt.Fprintln(os.Stderr, err, log)
		return 2
	}
	o := outs[0]
	b, _ := json.MarshalIndent(o, "", " ")
	fmt.Println(string(b))
	if len(o.Failures) > 0 || o.Panic != "" {
		fmt.Printf("VIOLATION property=%s replay=%s\n", rec.Property, c.File)
		return 1
	}
	return 0
}
