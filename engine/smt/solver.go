package smt

import (
	"bufio"
	"fmt"
	"io"
	"math/big"
	"os/exec"
	"strings"
	"time"
)

type Result int

const (
	Unsat Result = iota
	Sat
	Unknown
)

func (r Result) String() string { return [...]string{"unsat", "sat", "unknown"}[r] }

// Solver is one long-lived solver process driven over a pipe.
type Solver struct {
	Cmd       []string
	TimeoutMs int
	cmd       *exec.Cmd
	in        io.WriteCloser
	out       *bufio.Reader
	P         *Printer
	depth     int
	// statistics
	NSat, NUnsat, NUnknown int
	Time                   time.Duration
	Log                    io.Writer // optional transcript
	ErrLines               []string
	paths                  int
	inScope                bool
	Logic                  string // optional (set-logic ...) sent at start and after every reset
	lib                    *z3lib // in-process backend (Cmd[0] == "libz3")
	buf                    strings.Builder
	pendingOut             string
}

// Version describes the backend.
func (s *Solver) Version() string {
	if s.lib != nil {
		return z3LibVersion() + " (in-process, Z3_eval_smtlib2_string)"
	}
	return strings.Join(s.Cmd, " ")
}

func NewSolver(cmd []string, timeoutMs int) (*Solver, error) {
	return NewSolverLogic(cmd, timeoutMs, "")
}

func NewSolverLogic(cmd []string, timeoutMs int, logic string) (*Solver, error) {
	s := &Solver{Cmd: cmd, TimeoutMs: timeoutMs, Logic: logic}
	if err := s.start(); err != nil {
		return nil, err
	}
	return s, nil
}

func (s *Solver) start() error {
	if s.Cmd[0] == "libz3" {
		s.lib = newZ3Lib()
		s.P = NewPrinter()
		s.send("(set-option :print-success false)\n")
		s.send(fmt.Sprintf("(set-option :timeout %d)\n", s.TimeoutMs))
		s.send("(set-option :produce-models true)\n")
		if s.Logic != "" {
			s.send("(set-logic " + s.Logic + ")\n")
		}
		return nil
	}
	s.cmd = exec.Command(s.Cmd[0], s.Cmd[1:]...)
	in, err := s.cmd.StdinPipe()
	if err != nil {
		return err
	}
	out, err := s.cmd.StdoutPipe()
	if err != nil {
		return err
	}
	s.cmd.Stderr = nil
	if err := s.cmd.Start(); err != nil {
		return err
	}
	s.in, s.out = in, bufio.NewReaderSize(out, 1<<16)
	s.P = NewPrinter()
	s.depth = 0
	s.send("(set-option :print-success false)\n")
	if strings.Contains(s.Cmd[0], "z3") {
		s.send(fmt.Sprintf("(set-option :timeout %d)\n", s.TimeoutMs))
	}
	s.send("(set-option :produce-models true)\n")
	return nil
}

func (s *Solver) Close() {
	if s.lib != nil {
		s.lib.close()
	}
	if s.cmd != nil {
		s.in.Close()
		s.cmd.Process.Kill()
		s.cmd.Wait()
		s.cmd = nil
	}
}

func (s *Solver) send(text string) {
	if s.Log != nil {
		io.WriteString(s.Log, text)
	}
	if s.lib != nil {
		s.buf.WriteString(text)
		return
	}
	io.WriteString(s.in, text)
}

func (s *Solver) flushDefs() {
	if s.P.Out.Len() > 0 {
		s.send(s.P.Out.String())
		s.P.Out.Reset()
	}
}

// Reset discards all assertions and definitions (new path).
func (s *Solver) Reset() {
	for s.depth > 0 {
		s.send("(pop 1)\n")
		s.depth--
	}
	s.paths++
	if s.inScope {
		s.send("(pop 1)\n") // drops the previous path's assertions, declarations and definitions
	}
	if s.paths%2000 == 0 {
		// occasionally start from a clean context (bounds solver memory growth)
		s.send("(reset)\n")
		s.send("(set-option :print-success false)\n")
		if strings.Contains(s.Cmd[0], "z3") {
			s.send(fmt.Sprintf("(set-option :timeout %d)\n", s.TimeoutMs))
		}
		s.send("(set-option :produce-models true)\n")
		if s.Logic != "" {
			s.send("(set-logic " + s.Logic + ")\n")
		}
	}
	s.send("(push 1)\n")
	s.inScope = true
	s.P = NewPrinter()
}

func (s *Solver) Assert(t *Term) {
	if t.IsTrue() {
		return
	}
	r := s.P.Ref(t)
	s.flushDefs()
	s.send("(assert " + r + ")\n")
}

func (s *Solver) readLine() (string, error) {
	line, err := s.out.ReadString('\n')
	return strings.TrimSpace(line), err
}

// CheckWith checks satisfiability of the current assertions plus extra.
// Definitions needed by extra are emitted at the outer level so they persist.
func (s *Solver) CheckWith(extra *Term) Result {
	t0 := time.Now()
	defer func() { s.Time += time.Since(t0) }()
	if extra != nil && !extra.IsTrue() {
		r := s.P.Ref(extra)
		s.flushDefs()
		s.send("(push 1)\n(assert " + r + ")\n(check-sat)\n")
		s.depth++
	} else {
		s.send("(push 1)\n(check-sat)\n")
		s.depth++
	}
	res := s.readResult()
	return res
}

// Pop must follow CheckWith (after an optional GetModel).
func (s *Solver) Pop() {
	if s.depth > 0 {
		s.send("(pop 1)\n")
		s.depth--
	}
}

// flushLib evaluates the buffered commands in-process and returns their output.
func (s *Solver) flushLib() string {
	cmds := s.buf.String()
	s.buf.Reset()
	return s.lib.eval(cmds)
}

func (s *Solver) readResultLib() Result {
	out := s.flushLib()
	res := Unknown
	bad := false
	for _, line := range strings.Split(out, "\n") {
		line = strings.TrimSpace(line)
		switch {
		case line == "sat":
			res = Sat
		case line == "unsat":
			res = Unsat
		case line == "unknown" || line == "timeout":
			res = Unknown
		case strings.HasPrefix(line, "(error"):
			s.ErrLines = append(s.ErrLines, line)
			bad = true
		}
	}
	if bad {
		res = Unknown
	}
	switch res {
	case Sat:
		s.NSat++
	case Unsat:
		s.NUnsat++
	default:
		s.NUnknown++
	}
	return res
}

func (s *Solver) readResult() Result {
	if s.lib != nil {
		return s.readResultLib()
	}
	for {
		line, err := s.readLine()
		if err != nil {
			s.ErrLines = append(s.ErrLines, "solver pipe: "+err.Error())
			s.NUnknown++
			return Unknown
		}
		switch {
		case line == "sat":
			s.NSat++
			return Sat
		case line == "unsat":
			s.NUnsat++
			return Unsat
		case line == "unknown" || line == "timeout":
			s.NUnknown++
			return Unknown
		case strings.HasPrefix(line, "(error"):
			s.ErrLines = append(s.ErrLines, line)
			// keep reading: the check-sat answer still follows, but it cannot be trusted
			for {
				l2, err := s.readLine()
				if err != nil || l2 == "sat" || l2 == "unsat" || l2 == "unknown" {
					break
				}
			}
			s.NUnknown++
			return Unknown
		case line == "":
			continue
		default:
			s.ErrLines = append(s.ErrLines, "unexpected solver output: "+line)
		}
	}
}

// GetModel returns values for all declared variables (call after Sat, before Pop).
func (s *Solver) GetModel() *Model {
	m := NewModel()
	if len(s.P.Declared) == 0 {
		return m
	}
	var sb strings.Builder
	sb.WriteString("(get-value (")
	names := make([]string, 0, len(s.P.Declared))
	for n := range s.P.Declared {
		names = append(names, n)
		sb.WriteString("|" + n + "| ")
	}
	sb.WriteString("))\n")
	s.send(sb.String())
	// read one balanced s-expression
	var text string
	if s.lib != nil {
		text = s.flushLib()
	} else {
		text = s.readSexp()
	}
	parseModel(text, s.P.Declared, m)
	return m
}

func (s *Solver) readSexp() string {
	var sb strings.Builder
	depth := 0
	started := false
	inBar := false
	for {
		b, err := s.out.ReadByte()
		if err != nil {
			return sb.String()
		}
		sb.WriteByte(b)
		if b == '|' {
			inBar = !inBar
		}
		if inBar {
			continue
		}
		if b == '(' {
			depth++
			started = true
		} else if b == ')' {
			depth--
			if started && depth == 0 {
				return sb.String()
			}
		}
	}
}

func parseModel(text string, decl map[string]int, m *Model) {
	// tokens: ( ( |name| value ) ... ) where value is #x.., #b.., true,false, N, (- N), (_ bvN w)
	toks := tokenize(text)
	i := 0
	next := func() string {
		if i < len(toks) {
			i++
			return toks[i-1]
		}
		return ""
	}
	if next() != "(" {
		return
	}
	for i < len(toks) {
		t := next()
		if t == ")" || t == "" {
			return
		}
		if t != "(" {
			continue
		}
		name := strings.Trim(next(), "|")
		v := next()
		w := decl[name]
		switch {
		case v == "true":
			m.BV[name] = 1
		case v == "false":
			m.BV[name] = 0
		case strings.HasPrefix(v, "#x"):
			var x uint64
			fmt.Sscanf(v[2:], "%x", &x)
			m.BV[name] = x
		case strings.HasPrefix(v, "#b"):
			var x uint64
			fmt.Sscanf(v[2:], "%b", &x)
			m.BV[name] = x
		case v == "(":
			h := next()
			if h == "-" {
				n, _ := new(big.Int).SetString(next(), 10)
				m.Ints[name] = n.Neg(n)
				next() // )
			} else if h == "_" {
				bv := next() // bvN
				next()       // width
				next()       // )
				var x uint64
				fmt.Sscanf(strings.TrimPrefix(bv, "bv"), "%d", &x)
				m.BV[name] = x
			}
		default:
			if w == SortInt {
				n, ok := new(big.Int).SetString(v, 10)
				if ok {
					m.Ints[name] = n
				}
			}
		}
		next() // closing )
	}
}

func tokenize(s string) []string {
	var toks []string
	i := 0
	for i < len(s) {
		c := s[i]
		switch {
		case c == '(' || c == ')':
			toks = append(toks, string(c))
			i++
		case c == ' ' || c == '\n' || c == '\t' || c == '\r':
			i++
		case c == '|':
			j := i + 1
			for j < len(s) && s[j] != '|' {
				j++
			}
			toks = append(toks, s[i:j+1])
			i = j + 1
		default:
			j := i
			for j < len(s) && !strings.ContainsRune("() \n\t\r", rune(s[j])) {
				j++
			}
			toks = append(toks, s[i:j])
			i = j
		}
	}
	return toks
}

// OneShot runs a standalone script (declarations, definitions, assertions —
// without check-sat) in a fresh solver process, which lets the solver use its
// non-incremental tactics (bit-blasting with preprocessing).  Used as the
// fallback when the incremental query times out.
func OneShot(cmd []string, script string, declared map[string]int, timeoutMs int) (Result, *Model, string) {
	var sb strings.Builder
	sb.WriteString("(set-option :produce-models true)\n")
	sb.WriteString(script)
	sb.WriteString("(check-sat)\n")
	if len(declared) > 0 {
		sb.WriteString("(get-value (")
		for n := range declared {
			sb.WriteString("|" + n + "| ")
		}
		sb.WriteString("))\n")
	}
	args := append([]string{}, cmd[1:]...)
	if strings.Contains(cmd[0], "z3") {
		args = append(args, fmt.Sprintf("-T:%d", (timeoutMs+999)/1000))
	}
	c := exec.Command(cmd[0], args...)
	c.Stdin = strings.NewReader(sb.String())
	out, _ := c.Output()
	text := string(out)
	lines := strings.SplitN(strings.TrimSpace(text), "\n", 2)
	if strings.Contains(text, "(error") && !strings.HasPrefix(lines[0], "unsat") {
		// errors after an unsat answer come from get-value (no model): harmless
		if !(strings.HasPrefix(lines[0], "sat")) {
			return Unknown, nil, text
		}
	}
	switch lines[0] {
	case "unsat":
		return Unsat, nil, ""
	case "sat":
		m := NewModel()
		if len(lines) > 1 {
			parseModel(lines[1], declared, m)
		}
		return Sat, m, ""
	}
	return Unknown, nil, text
}
