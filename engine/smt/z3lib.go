package smt

// In-process z3 (libz3 5.1 from the tooling venv) driven through
// Z3_eval_smtlib2_string: same SMT-LIB2 text protocol as the pipe backend,
// without process switches (a pipe round trip costs ~1-3 ms in this sandbox,
// an in-process query ~0.15 ms).

/*
#cgo CFLAGS: -I/opt/veriftools/pyvenv/lib/python3.11/site-packages/z3/include
#cgo LDFLAGS: -L/opt/veriftools/pyvenv/lib/python3.11/site-packages/z3/lib -lz3 -Wl,-rpath,/opt/veriftools/pyvenv/lib/python3.11/site-packages/z3/lib
#include <stdlib.h>
#include <z3.h>

static void gosym_noop_error_handler(Z3_context c, Z3_error_code e) {}

static Z3_context gosym_mk_context(void) {
	Z3_config cfg = Z3_mk_config();
	Z3_context ctx = Z3_mk_context(cfg);
	Z3_del_config(cfg);
	Z3_set_error_handler(ctx, gosym_noop_error_handler);
	return ctx;
}
*/
import "C"

import "unsafe"

type z3lib struct {
	ctx C.Z3_context
}

func newZ3Lib() *z3lib { return &z3lib{ctx: C.gosym_mk_context()} }

func (z *z3lib) eval(cmds string) string {
	cs := C.CString(cmds)
	defer C.free(unsafe.Pointer(cs))
	out := C.Z3_eval_smtlib2_string(z.ctx, cs)
	return C.GoString(out)
}

func (z *z3lib) close() {
	if z.ctx != nil {
		C.Z3_del_context(z.ctx)
		z.ctx = nil
	}
}

func z3LibVersion() string {
	var a, b, c, d C.uint
	C.Z3_get_version(&a, &b, &c, &d)
	return "libz3 " + itoa(int(a)) + "." + itoa(int(b)) + "." + itoa(int(c))
}

func itoa(i int) string {
	if i == 0 {
		return "0"
	}
	s := ""
	for i > 0 {
		s = string(rune('0'+i%10)) + s
		i /= 10
	}
	return s
}
