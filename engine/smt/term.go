// Package smt: term DAG for QF_BV (+Bool, +Int) with light simplification,
// concrete evaluation under a model and SMT-LIB2 printing.
package smt

import (
	"fmt"
	"math/big"
	"strings"
	"sync/atomic"
)

type Op uint8

const (
	OpConst Op = iota // BV const (V) or Bool const (V!=0) or Int const (BI)
	OpVar
	// bool
	OpNot
	OpAnd
	OpOr
	OpEq // any sort, result Bool
	OpIte
	// bv
	OpAdd
	OpSub
	OpMul
	OpUDiv
	OpURem
	OpSDiv
	OpSRem
	OpBAnd
	OpBOr
	OpBXor
	OpBNot
	OpNeg
	OpShl
	OpLShr
	OpAShr
	OpULt
	OpULe
	OpSLt
	OpSLe
	OpConcat
	OpExtract // P1=hi P2=lo
	OpZExt    // to width W
	OpSExt
	// int
	OpIAdd
	OpISub
	OpIMul
	OpIDiv
	OpIMod
	OpILt
	OpILe
)

var opNames = map[Op]string{
	OpNot: "not", OpAnd: "and", OpOr: "or", OpEq: "=", OpIte: "ite",
	OpAdd: "bvadd", OpSub: "bvsub", OpMul: "bvmul", OpUDiv: "bvudiv", OpURem: "bvurem",
	OpSDiv: "bvsdiv", OpSRem: "bvsrem", OpBAnd: "bvand", OpBOr: "bvor", OpBXor: "bvxor",
	OpBNot: "bvnot", OpNeg: "bvneg", OpShl: "bvshl", OpLShr: "bvlshr", OpAShr: "bvashr",
	OpULt: "bvult", OpULe: "bvule", OpSLt: "bvslt", OpSLe: "bvsle", OpConcat: "concat",
	OpIAdd: "+", OpISub: "-", OpIMul: "*", OpIDiv: "div", OpIMod: "mod", OpILt: "<", OpILe: "<=",
}

// Sort encoding in W: >0 bit-vector of that width; 0 Bool; -1 Int.
const (
	SortBool = 0
	SortInt  = -1
)

type Term struct {
	Op     Op
	W      int
	Args   []*Term
	V      uint64   // const value (masked) for BV/Bool
	BI     *big.Int // const value for Int
	Name   string   // var
	P1, P2 int
	h      uint64
	ID     uint64
}

var idCounter uint64

func mask(w int) uint64 {
	if w >= 64 {
		return ^uint64(0)
	}
	return (uint64(1) << uint(w)) - 1
}

func mk(op Op, w int, args ...*Term) *Term {
	t := &Term{Op: op, W: w, Args: args}
	h := uint64(op)*0x9E3779B97F4A7C15 + uint64(int64(w))*0xC2B2AE3D27D4EB4F
	for _, a := range args {
		h = (h ^ a.h) * 0x100000001B3
		h ^= h >> 29
	}
	t.h = h
	t.ID = atomic.AddUint64(&idCounter, 1)
	return t
}

var (
	True  = &Term{Op: OpConst, W: 0, V: 1, h: 0x1111, ID: 1<<63 + 1}
	False = &Term{Op: OpConst, W: 0, V: 0, h: 0x2222, ID: 1<<63 + 2}
)

func Bool(b bool) *Term {
	if b {
		return True
	}
	return False
}

func Const(w int, v uint64) *Term {
	if w <= 0 || w > 64 {
		panic(fmt.Sprintf("smt.Const: bad width %d", w))
	}
	t := &Term{Op: OpConst, W: w, V: v & mask(w)}
	t.h = t.V*0x9E3779B97F4A7C15 + uint64(w)*7919 + 13
	t.ID = atomic.AddUint64(&idCounter, 1)
	return t
}

func IntConst(v *big.Int) *Term {
	t := &Term{Op: OpConst, W: SortInt, BI: new(big.Int).Set(v)}
	t.h = uint64(v.Int64())*0x9E3779B97F4A7C15 + 0x77
	if !v.IsInt64() {
		t.h ^= uint64(v.BitLen()) * 31
	}
	t.ID = atomic.AddUint64(&idCounter, 1)
	return t
}

func Var(name string, w int) *Term {
	t := &Term{Op: OpVar, W: w, Name: name}
	var h uint64 = 1469598103934665603
	for i := 0; i < len(name); i++ {
		h = (h ^ uint64(name[i])) * 1099511628211
	}
	t.h = h + uint64(int64(w))
	t.ID = atomic.AddUint64(&idCounter, 1)
	return t
}

func (t *Term) IsConst() bool { return t.Op == OpConst }
func (t *Term) IsTrue() bool  { return t.Op == OpConst && t.W == 0 && t.V == 1 }
func (t *Term) IsFalse() bool { return t.Op == OpConst && t.W == 0 && t.V == 0 }
func (t *Term) Hash() uint64  { return t.h }

// Equal: structural equality (pointer fast path, hash short-circuit).
func Equal(a, b *Term) bool {
	if a == b {
		return true
	}
	if a.h != b.h || a.Op != b.Op || a.W != b.W || len(a.Args) != len(b.Args) {
		return false
	}
	switch a.Op {
	case OpConst:
		if a.W == SortInt {
			return a.BI.Cmp(b.BI) == 0
		}
		return a.V == b.V
	case OpVar:
		return a.Name == b.Name
	case OpExtract:
		if a.P1 != b.P1 || a.P2 != b.P2 {
			return false
		}
	}
	for i := range a.Args {
		if !Equal(a.Args[i], b.Args[i]) {
			return false
		}
	}
	return true
}

func sx(v uint64, w int) int64 {
	if w >= 64 {
		return int64(v)
	}
	if v&(1<<uint(w-1)) != 0 {
		return int64(v | ^mask(w))
	}
	return int64(v)
}

// ---------- constructors with simplification ----------

func Not(a *Term) *Term {
	if a.IsConst() {
		return Bool(a.V == 0)
	}
	if a.Op == OpNot {
		return a.Args[0]
	}
	return mk(OpNot, 0, a)
}

func And(a, b *Term) *Term {
	if a.IsConst() {
		if a.V == 0 {
			return False
		}
		return b
	}
	if b.IsConst() {
		if b.V == 0 {
			return False
		}
		return a
	}
	if Equal(a, b) {
		return a
	}
	return mk(OpAnd, 0, a, b)
}

func Or(a, b *Term) *Term {
	if a.IsConst() {
		if a.V == 1 {
			return True
		}
		return b
	}
	if b.IsConst() {
		if b.V == 1 {
			return True
		}
		return a
	}
	if Equal(a, b) {
		return a
	}
	return mk(OpOr, 0, a, b)
}

func Implies(a, b *Term) *Term { return Or(Not(a), b) }

func Eq(a, b *Term) *Term {
	if a.W != b.W {
		panic(fmt.Sprintf("smt.Eq: sort mismatch %d vs %d", a.W, b.W))
	}
	if a.IsConst() && b.IsConst() {
		if a.W == SortInt {
			return Bool(a.BI.Cmp(b.BI) == 0)
		}
		return Bool(a.V == b.V)
	}
	if Equal(a, b) {
		return True
	}
	if termLess(b, a) {
		a, b = b, a
	}
	if a.W == 0 {
		if a.IsConst() {
			a, b = b, a
		}
		if b.IsConst() {
			if b.V == 1 {
				return a
			}
			return Not(a)
		}
	}
	// ite(c, k1, k2) == k  simplification
	if b.IsConst() && a.Op == OpIte && a.Args[1].IsConst() && a.Args[2].IsConst() && a.W > 0 {
		t1 := a.Args[1].V == b.V
		t2 := a.Args[2].V == b.V
		switch {
		case t1 && t2:
			return True
		case t1:
			return a.Args[0]
		case t2:
			return Not(a.Args[0])
		default:
			return False
		}
	}
	return mk(OpEq, 0, a, b)
}

func Ite(c, a, b *Term) *Term {
	if a.W != b.W {
		panic(fmt.Sprintf("smt.Ite: sort mismatch %d vs %d", a.W, b.W))
	}
	if c.IsConst() {
		if c.V == 1 {
			return a
		}
		return b
	}
	if Equal(a, b) {
		return a
	}
	if a.W == 0 {
		if a.IsTrue() && b.IsFalse() {
			return c
		}
		if a.IsFalse() && b.IsTrue() {
			return Not(c)
		}
		if a.IsTrue() {
			return Or(c, b)
		}
		if a.IsFalse() {
			return And(Not(c), b)
		}
		if b.IsTrue() {
			return Or(Not(c), a)
		}
		if b.IsFalse() {
			return And(c, a)
		}
	}
	t := mk(OpIte, a.W, c, a, b)
	return t
}

func commutative(op Op) bool {
	switch op {
	case OpAdd, OpMul, OpBAnd, OpBOr, OpBXor:
		return true
	}
	return false
}

// less orders terms for the canonical argument order of commutative operators
// (constants last, otherwise by structural hash).
func termLess(a, b *Term) bool {
	if a.IsConst() != b.IsConst() {
		return !a.IsConst()
	}
	return a.h < b.h
}

func bin(op Op, a, b *Term) *Term {
	if a.W != b.W || a.W <= 0 {
		panic(fmt.Sprintf("smt bin %s: width mismatch %d vs %d", opNames[op], a.W, b.W))
	}
	w := a.W
	if commutative(op) && termLess(b, a) {
		a, b = b, a
	}
	if a.IsConst() && b.IsConst() {
		if v, ok := foldBin(op, w, a.V, b.V); ok {
			return Const(w, v)
		}
	}
	// identities
	switch op {
	case OpAdd, OpBOr, OpBXor:
		if a.IsConst() && a.V == 0 {
			return b
		}
		if b.IsConst() && b.V == 0 {
			return a
		}
	case OpSub, OpShl, OpLShr, OpAShr:
		if b.IsConst() && b.V == 0 {
			return a
		}
	case OpMul:
		if a.IsConst() {
			a, b = b, a
		}
		if b.IsConst() {
			if b.V == 0 {
				return b
			}
			if b.V == 1 {
				return a
			}
		}
	case OpBAnd:
		if a.IsConst() {
			a, b = b, a
		}
		if b.IsConst() {
			if b.V == 0 {
				return b
			}
			if b.V == mask(w) {
				return a
			}
		}
	case OpUDiv:
		if b.IsConst() && b.V == 1 {
			return a
		}
	}
	return mk(op, w, a, b)
}

func foldBin(op Op, w int, x, y uint64) (uint64, bool) {
	m := mask(w)
	switch op {
	case OpAdd:
		return (x + y) & m, true
	case OpSub:
		return (x - y) & m, true
	case OpMul:
		return (x * y) & m, true
	case OpUDiv:
		if y == 0 {
			return m, true
		}
		return x / y, true
	case OpURem:
		if y == 0 {
			return x, true
		}
		return x % y, true
	case OpSDiv:
		sxv, syv := sx(x, w), sx(y, w)
		if syv == 0 {
			if sxv < 0 {
				return 1, true
			}
			return m, true
		}
		if syv == -1 {
			return uint64(-sxv) & m, true
		}
		return uint64(sxv/syv) & m, true
	case OpSRem:
		sxv, syv := sx(x, w), sx(y, w)
		if syv == 0 {
			return x, true
		}
		if syv == -1 {
			return 0, true
		}
		return uint64(sxv%syv) & m, true
	case OpBAnd:
		return x & y, true
	case OpBOr:
		return x | y, true
	case OpBXor:
		return x ^ y, true
	case OpShl:
		if y >= uint64(w) {
			return 0, true
		}
		return (x << y) & m, true
	case OpLShr:
		if y >= uint64(w) {
			return 0, true
		}
		return x >> y, true
	case OpAShr:
		s := sx(x, w)
		if y >= uint64(w) {
			if s < 0 {
				return m, true
			}
			return 0, true
		}
		return uint64(s>>y) & m, true
	}
	return 0, false
}

func Add(a, b *Term) *Term  { return bin(OpAdd, a, b) }
func Sub(a, b *Term) *Term  { return bin(OpSub, a, b) }
func Mul(a, b *Term) *Term  { return bin(OpMul, a, b) }
func UDiv(a, b *Term) *Term { return bin(OpUDiv, a, b) }
func URem(a, b *Term) *Term { return bin(OpURem, a, b) }
func SDiv(a, b *Term) *Term { return bin(OpSDiv, a, b) }
func SRem(a, b *Term) *Term { return bin(OpSRem, a, b) }
func BAnd(a, b *Term) *Term { return bin(OpBAnd, a, b) }
func BOr(a, b *Term) *Term  { return bin(OpBOr, a, b) }
func BXor(a, b *Term) *Term { return bin(OpBXor, a, b) }
func Shl(a, b *Term) *Term  { return bin(OpShl, a, b) }
func LShr(a, b *Term) *Term { return bin(OpLShr, a, b) }
func AShr(a, b *Term) *Term { return bin(OpAShr, a, b) }

func BNot(a *Term) *Term {
	if a.IsConst() {
		return Const(a.W, ^a.V)
	}
	if a.Op == OpBNot {
		return a.Args[0]
	}
	return mk(OpBNot, a.W, a)
}

func Neg(a *Term) *Term {
	if a.IsConst() {
		return Const(a.W, -a.V)
	}
	return mk(OpNeg, a.W, a)
}

func cmp(op Op, a, b *Term) *Term {
	if a.W != b.W || a.W <= 0 {
		panic(fmt.Sprintf("smt cmp %s: width mismatch %d vs %d", opNames[op], a.W, b.W))
	}
	if a.IsConst() && b.IsConst() {
		switch op {
		case OpULt:
			return Bool(a.V < b.V)
		case OpULe:
			return Bool(a.V <= b.V)
		case OpSLt:
			return Bool(sx(a.V, a.W) < sx(b.V, b.W))
		case OpSLe:
			return Bool(sx(a.V, a.W) <= sx(b.V, b.W))
		}
	}
	if Equal(a, b) {
		return Bool(op == OpULe || op == OpSLe)
	}
	switch op {
	case OpULt:
		if b.IsConst() && b.V == 0 {
			return False
		}
	case OpULe:
		if a.IsConst() && a.V == 0 {
			return True
		}
		if b.IsConst() && b.V == mask(b.W) {
			return True
		}
	}
	return mk(op, 0, a, b)
}

// Strict comparisons are canonicalised to the negation of the non-strict one
// with swapped arguments, so that x<y, y>x, !(x>=y), !(y<=x) are one atom.
func ULt(a, b *Term) *Term { return Not(cmp(OpULe, b, a)) }
func ULe(a, b *Term) *Term { return cmp(OpULe, a, b) }
func SLt(a, b *Term) *Term { return Not(cmp(OpSLe, b, a)) }
func SLe(a, b *Term) *Term { return cmp(OpSLe, a, b) }

func Concat(hi, lo *Term) *Term {
	w := hi.W + lo.W
	if w > 64 {
		panic("smt.Concat: width > 64")
	}
	if hi.IsConst() && lo.IsConst() {
		return Const(w, hi.V<<uint(lo.W)|lo.V)
	}
	// concat(extract[h:m+1](x), extract[m:l](x)) = extract[h:l](x)
	if hi.Op == OpExtract && lo.Op == OpExtract && hi.Args[0] == lo.Args[0] && hi.P2 == lo.P1+1 {
		return Extract(hi.Args[0], hi.P1, lo.P2)
	}
	return mk(OpConcat, w, hi, lo)
}

func Extract(a *Term, hi, lo int) *Term {
	if hi < lo || hi >= a.W || lo < 0 {
		panic(fmt.Sprintf("smt.Extract[%d:%d] of width %d", hi, lo, a.W))
	}
	w := hi - lo + 1
	if w == a.W {
		return a
	}
	if a.IsConst() {
		return Const(w, a.V>>uint(lo))
	}
	switch a.Op {
	case OpExtract:
		return Extract(a.Args[0], a.P2+hi, a.P2+lo)
	case OpConcat:
		lw := a.Args[1].W
		if hi < lw {
			return Extract(a.Args[1], hi, lo)
		}
		if lo >= lw {
			return Extract(a.Args[0], hi-lw, lo-lw)
		}
	case OpZExt, OpSExt:
		iw := a.Args[0].W
		if hi < iw {
			return Extract(a.Args[0], hi, lo)
		}
		if a.Op == OpZExt && lo >= iw {
			return Const(w, 0)
		}
	}
	t := mk(OpExtract, w, a)
	t.P1, t.P2 = hi, lo
	t.h = t.h*31 + uint64(hi)*131 + uint64(lo)
	return t
}

func ZExt(a *Term, w int) *Term {
	if w == a.W {
		return a
	}
	if w < a.W {
		return Extract(a, w-1, 0)
	}
	if a.IsConst() {
		return Const(w, a.V)
	}
	if a.Op == OpZExt {
		return ZExt(a.Args[0], w)
	}
	return mk(OpZExt, w, a)
}

func SExt(a *Term, w int) *Term {
	if w == a.W {
		return a
	}
	if w < a.W {
		return Extract(a, w-1, 0)
	}
	if a.IsConst() {
		return Const(w, uint64(sx(a.V, a.W)))
	}
	return mk(OpSExt, w, a)
}

// BoolToBV returns ite(b, 1, 0) of width w.
func BoolToBV(b *Term, w int) *Term { return Ite(b, Const(w, 1), Const(w, 0)) }

// ---------- Int sort ----------

func ibin(op Op, a, b *Term) *Term {
	if a.W != SortInt || b.W != SortInt {
		panic("smt int op on non-int")
	}
	if a.IsConst() && b.IsConst() {
		r := new(big.Int)
		switch op {
		case OpIAdd:
			return IntConst(r.Add(a.BI, b.BI))
		case OpISub:
			return IntConst(r.Sub(a.BI, b.BI))
		case OpIMul:
			return IntConst(r.Mul(a.BI, b.BI))
		case OpIDiv:
			if b.BI.Sign() != 0 {
				return IntConst(r.Div(a.BI, b.BI)) // Euclidean, as SMT-LIB div
			}
		case OpIMod:
			if b.BI.Sign() != 0 {
				return IntConst(r.Mod(a.BI, b.BI))
			}
		}
	}
	return mk(op, SortInt, a, b)
}
func IAdd(a, b *Term) *Term { return ibin(OpIAdd, a, b) }
func ISub(a, b *Term) *Term { return ibin(OpISub, a, b) }
func IMul(a, b *Term) *Term { return ibin(OpIMul, a, b) }
func IDiv(a, b *Term) *Term { return ibin(OpIDiv, a, b) }
func IMod(a, b *Term) *Term { return ibin(OpIMod, a, b) }
func ILt(a, b *Term) *Term {
	if a.IsConst() && b.IsConst() {
		return Bool(a.BI.Cmp(b.BI) < 0)
	}
	return mk(OpILt, 0, a, b)
}
func ILe(a, b *Term) *Term {
	if a.IsConst() && b.IsConst() {
		return Bool(a.BI.Cmp(b.BI) <= 0)
	}
	return mk(OpILe, 0, a, b)
}

// ---------- evaluation ----------

// Model maps variable names to values (BV/Bool as uint64; Int as *big.Int in Ints).
type Model struct {
	BV   map[string]uint64
	Ints map[string]*big.Int
}

func NewModel() *Model { return &Model{BV: map[string]uint64{}, Ints: map[string]*big.Int{}} }

type Evaluator struct {
	M     *Model
	cache map[*Term]uint64
	icach map[*Term]*big.Int
}

func NewEvaluator(m *Model) *Evaluator {
	return &Evaluator{M: m, cache: map[*Term]uint64{}, icach: map[*Term]*big.Int{}}
}

// Eval evaluates a BV or Bool term (unassigned variables are 0).
func (e *Evaluator) Eval(t *Term) uint64 {
	if t.Op == OpConst {
		return t.V
	}
	if v, ok := e.cache[t]; ok {
		return v
	}
	v := e.eval1(t)
	e.cache[t] = v
	return v
}

func b2u(b bool) uint64 {
	if b {
		return 1
	}
	return 0
}

func (e *Evaluator) eval1(t *Term) uint64 {
	switch t.Op {
	case OpVar:
		return e.M.BV[t.Name] & maskS(t.W)
	case OpNot:
		return 1 - e.Eval(t.Args[0])
	case OpAnd:
		return e.Eval(t.Args[0]) & e.Eval(t.Args[1])
	case OpOr:
		return e.Eval(t.Args[0]) | e.Eval(t.Args[1])
	case OpEq:
		if t.Args[0].W == SortInt {
			return b2u(e.EvalInt(t.Args[0]).Cmp(e.EvalInt(t.Args[1])) == 0)
		}
		return b2u(e.Eval(t.Args[0]) == e.Eval(t.Args[1]))
	case OpIte:
		if e.Eval(t.Args[0]) == 1 {
			return e.Eval(t.Args[1])
		}
		return e.Eval(t.Args[2])
	case OpBNot:
		return ^e.Eval(t.Args[0]) & mask(t.W)
	case OpNeg:
		return -e.Eval(t.Args[0]) & mask(t.W)
	case OpULt:
		return b2u(e.Eval(t.Args[0]) < e.Eval(t.Args[1]))
	case OpULe:
		return b2u(e.Eval(t.Args[0]) <= e.Eval(t.Args[1]))
	case OpSLt:
		w := t.Args[0].W
		return b2u(sx(e.Eval(t.Args[0]), w) < sx(e.Eval(t.Args[1]), w))
	case OpSLe:
		w := t.Args[0].W
		return b2u(sx(e.Eval(t.Args[0]), w) <= sx(e.Eval(t.Args[1]), w))
	case OpConcat:
		return e.Eval(t.Args[0])<<uint(t.Args[1].W) | e.Eval(t.Args[1])
	case OpExtract:
		return (e.Eval(t.Args[0]) >> uint(t.P2)) & mask(t.W)
	case OpZExt:
		return e.Eval(t.Args[0])
	case OpSExt:
		return uint64(sx(e.Eval(t.Args[0]), t.Args[0].W)) & mask(t.W)
	case OpILt:
		return b2u(e.EvalInt(t.Args[0]).Cmp(e.EvalInt(t.Args[1])) < 0)
	case OpILe:
		return b2u(e.EvalInt(t.Args[0]).Cmp(e.EvalInt(t.Args[1])) <= 0)
	default:
		if v, ok := foldBin(t.Op, t.W, e.Eval(t.Args[0]), e.Eval(t.Args[1])); ok {
			return v
		}
	}
	panic(fmt.Sprintf("smt eval: unhandled op %d", t.Op))
}

func maskS(w int) uint64 {
	if w == 0 {
		return 1
	}
	return mask(w)
}

func (e *Evaluator) EvalInt(t *Term) *big.Int {
	if t.Op == OpConst {
		return t.BI
	}
	if v, ok := e.icach[t]; ok {
		return v
	}
	var r *big.Int
	switch t.Op {
	case OpVar:
		r = e.M.Ints[t.Name]
		if r == nil {
			r = new(big.Int)
		}
	case OpIte:
		if e.Eval(t.Args[0]) == 1 {
			r = e.EvalInt(t.Args[1])
		} else {
			r = e.EvalInt(t.Args[2])
		}
	default:
		a, b := e.EvalInt(t.Args[0]), e.EvalInt(t.Args[1])
		r = new(big.Int)
		switch t.Op {
		case OpIAdd:
			r.Add(a, b)
		case OpISub:
			r.Sub(a, b)
		case OpIMul:
			r.Mul(a, b)
		case OpIDiv:
			if b.Sign() != 0 {
				r.Div(a, b)
			}
		case OpIMod:
			if b.Sign() != 0 {
				r.Mod(a, b)
			}
		default:
			panic("smt evalint: unhandled op")
		}
	}
	e.icach[t] = r
	return r
}

// ---------- printing ----------

func SortString(w int) string {
	switch {
	case w == 0:
		return "Bool"
	case w == SortInt:
		return "Int"
	}
	return fmt.Sprintf("(_ BitVec %d)", w)
}

func constString(t *Term) string {
	switch {
	case t.W == 0:
		if t.V == 1 {
			return "true"
		}
		return "false"
	case t.W == SortInt:
		if t.BI.Sign() < 0 {
			return "(- " + new(big.Int).Neg(t.BI).String() + ")"
		}
		return t.BI.String()
	case t.W%4 == 0:
		return fmt.Sprintf("#x%0*x", t.W/4, t.V)
	}
	return fmt.Sprintf("#b%0*b", t.W, t.V)
}

// Printer emits define-fun lines for shared nodes; one per solver scope.
type Printer struct {
	Defined  map[*Term]string
	Declared map[string]int
	Out      *strings.Builder
}

func NewPrinter() *Printer {
	return &Printer{Defined: map[*Term]string{}, Declared: map[string]int{}, Out: &strings.Builder{}}
}

// Ref returns the SMT-LIB text referring to t, emitting any needed
// declarations/definitions into p.Out first.
func (p *Printer) Ref(t *Term) string {
	if t.Op == OpConst {
		return constString(t)
	}
	if s, ok := p.Defined[t]; ok {
		return s
	}
	if t.Op == OpVar {
		name := "|" + t.Name + "|"
		if _, ok := p.Declared[t.Name]; !ok {
			p.Declared[t.Name] = t.W
			fmt.Fprintf(p.Out, "(declare-const %s %s)\n", name, SortString(t.W))
		}
		p.Defined[t] = name
		return name
	}
	// iterative post-order to avoid deep recursion on long chains
	type fr struct {
		t *Term
		i int
	}
	stack := []fr{{t, 0}}
	for len(stack) > 0 {
		f := &stack[len(stack)-1]
		if f.i < len(f.t.Args) {
			a := f.t.Args[f.i]
			f.i++
			if a.Op == OpConst {
				continue
			}
			if _, ok := p.Defined[a]; ok {
				continue
			}
			if a.Op == OpVar {
				p.Ref(a)
				continue
			}
			stack = append(stack, fr{a, 0})
			continue
		}
		cur := f.t
		stack = stack[:len(stack)-1]
		if _, ok := p.Defined[cur]; ok {
			continue
		}
		var sb strings.Builder
		switch cur.Op {
		case OpExtract:
			fmt.Fprintf(&sb, "((_ extract %d %d) %s)", cur.P1, cur.P2, p.Ref(cur.Args[0]))
		case OpZExt:
			fmt.Fprintf(&sb, "((_ zero_extend %d) %s)", cur.W-cur.Args[0].W, p.Ref(cur.Args[0]))
		case OpSExt:
			fmt.Fprintf(&sb, "((_ sign_extend %d) %s)", cur.W-cur.Args[0].W, p.Ref(cur.Args[0]))
		default:
			sb.WriteString("(" + opNames[cur.Op])
			for _, a := range cur.Args {
				sb.WriteString(" " + p.Ref(a))
			}
			sb.WriteString(")")
		}
		name := fmt.Sprintf("t%d", cur.ID)
		fmt.Fprintf(p.Out, "(define-fun %s () %s %s)\n", name, SortString(cur.W), sb.String())
		p.Defined[cur] = name
	}
	return p.Defined[t]
}

// String renders a term inline (for diagnostics; exponential on big DAGs, so depth-limited).
func (t *Term) String() string { return t.str(6) }

func (t *Term) str(d int) string {
	switch t.Op {
	case OpConst:
		if t.W > 0 {
			return fmt.Sprintf("%d", t.V)
		}
		return constString(t)
	case OpVar:
		return t.Name
	}
	if d == 0 {
		return "…"
	}
	var sb strings.Builder
	switch t.Op {
	case OpExtract:
		fmt.Fprintf(&sb, "(extract[%d:%d] %s)", t.P1, t.P2, t.Args[0].str(d-1))
		return sb.String()
	case OpZExt:
		return fmt.Sprintf("(zext%d %s)", t.W, t.Args[0].str(d-1))
	case OpSExt:
		return fmt.Sprintf("(sext%d %s)", t.W, t.Args[0].str(d-1))
	}
	sb.WriteString("(" + opNames[t.Op])
	for _, a := range t.Args {
		sb.WriteString(" " + a.str(d-1))
	}
	sb.WriteString(")")
	return sb.String()
}
