package datasemaphore

import (
	"time"

	"github.com/Fantom-foundation/lachesis-base/inter/dag"
	"github.com/Fantom-foundation/lachesis-base/inter/idx"
	"github.com/Fantom-foundation/lachesis-base/zzverif/sym"
)

func vMetric(name string) dag.Metric {
	return dag.Metric{Num: idx.Event(sym.U32(name + "_num")), Size: sym.U64(name + "_size")}
}

func vLE(a, b dag.Metric) bool { return sym.And(a.Num <= b.Num, a.Size <= b.Size) }

// arbitrary valid state: held <= capacity
func vState() (*DataSemaphore, dag.Metric, dag.Metric, *int) {
	max, held := vMetric("max"), vMetric("held")
	sym.Assume(vLE(held, max))
	warned := new(int)
	s := New(max, func(dag.Metric, dag.Metric, dag.Metric) { *warned++ })
	s.processing = held
	return s, max, held, warned
}

// fits: held + w <= max in exact arithmetic
func vFits(held, w, max dag.Metric) bool {
	return sym.And(uint64(held.Num)+uint64(w.Num) <= uint64(max.Num),
		sym.And(held.Size+w.Size >= held.Size, held.Size+w.Size <= max.Size))
}

// VerifH_C30_try: TryAcquire from an arbitrary valid state with an arbitrary request.
func VerifH_C30_try() {
	s, max, held, _ := vState()
	w := vMetric("w")
	if sym.Known("C30-acquire-wrap") {
		// open finding: additions that wrap around 2^32 / 2^64
		sym.Assume(uint64(held.Num)+uint64(w.Num) < 1<<32 && held.Size+w.Size >= held.Size)
	}
	got := s.TryAcquire(w)
	fits := vFits(held, w, max)
	sym.Assert(sym.Iff(got, fits), "a request is granted exactly when it fits into the remaining capacity")
	now := s.Processing()
	sym.Assert(vLE(now, max), "the held amount never exceeds the capacity")
	if got {
		sym.Assert(now.Num == held.Num+w.Num && now.Size == held.Size+w.Size, "a granted request is added to the held amount")
		sym.Reach("granted")
	} else {
		sym.Assert(now == held, "a refused request changes nothing")
		sym.Reach("refused")
	}
	av := s.Available()
	sym.Assert(av.Num == max.Num-now.Num && av.Size == max.Size-now.Size, "Available = capacity - held")
}

// VerifH_C30_release: Release from an arbitrary valid state.
func VerifH_C30_release() {
	s, max, held, warned := vState()
	w := vMetric("w")
	s.Release(w)
	now := s.Processing()
	if sym.And(held.Num >= w.Num, held.Size >= w.Size) {
		sym.Assert(now.Num == held.Num-w.Num && now.Size == held.Size-w.Size && *warned == 0, "Release subtracts what was released")
		sym.Reach("released")
	} else {
		sym.Assert(now == (dag.Metric{}) && *warned == 1, "an over-release resets the held amount to zero and is reported")
		sym.Reach("over-release")
	}
	sym.Assert(vLE(now, max), "the held amount never exceeds the capacity")
}

// VerifH_C30_terminate: after Terminate every non-empty request is refused.
func VerifH_C30_terminate() {
	sym.IntMode(true)
	s, _, held, _ := vState()
	s.Terminate()
	w := vMetric("w")
	sym.Assume(w.Num != 0 || w.Size != 0)
	if sym.Known("C30-acquire-wrap") {
		sym.Assume(uint64(held.Num)+uint64(w.Num) < 1<<32 && held.Size+w.Size >= held.Size)
	}
	sym.Assert(!s.TryAcquire(w), "after termination every non-empty request is refused (TryAcquire)")
	sym.OnYield(func(string) bool { return false })
	var ok bool
	timeout := sym.I64("timeout")
	sym.Assume(timeout >= 0 && timeout <= 1_000_000_000)
	sym.SetNow(1_000_000_000_000)
	blocked := sym.RunUntilBlocked(func() { ok = s.Acquire(w, time.Duration(timeout)) })
	sym.Assert(!blocked && !ok, "after termination Acquire returns false at once")
	sym.Reach("terminated")
}

// VerifH_C30_acquire: Acquire with an arbitrary request and timeout from an arbitrary valid state.
// At every cond.Wait the environment either releases an arbitrary amount, terminates, or lets
// time pass beyond the deadline and never signals again.  Acquire must return in every case; it
// grants exactly when the request fits at some check, and refuses requests above the capacity.
func VerifH_C30_acquire() {
	sym.IntMode(true)
	s, max, held, _ := vState()
	w := vMetric("w")
	timeout := sym.I64("timeout")
	// two regimes, so that the native replay (which steps the environment after 60 ms of no progress)
	// sees the same order of events: the environment acts after the deadline (timeout 1-30 ms) or
	// well before it (timeout 1-1.5 s)
	if sym.Bool("late") {
		sym.Assume(timeout >= 1_000_000 && timeout <= 30_000_000)
	} else {
		sym.Assume(timeout >= 1_000_000_000 && timeout <= 1_500_000_000)
	}
	t0 := int64(1_000_000_000_000)
	sym.SetNow(t0)
	wrapFree := sym.And(uint64(held.Num)+uint64(w.Num) < 1<<32, held.Size+w.Size >= held.Size)
	if sym.Known("C30-acquire-wrap") {
		sym.Assume(wrapFree)
	}
	waits := 0
	fitted := vFits(held, w, max) // did the request fit at some check?
	cur := held
	terminated := false
	sym.OnYield(func(string) bool {
		sym.Assert(!terminated || (w.Num == 0 && w.Size == 0), "a blocked non-empty request returns as soon as the semaphore is terminated")
		waits++
		if waits > 2 {
			sym.Assume(false) // bound: at most two waits are explored
		}
		switch sym.Choice("env", 3) {
		case 0: // somebody releases an arbitrary amount (then broadcasts)
			sym.SetNow(t0 + int64(waits)*60_000_000)
			r := vMetric("rel")
			sym.Assume(vLE(r, cur))
			s.Release(r)
			cur = dag.Metric{Num: cur.Num - r.Num, Size: cur.Size - r.Size}
			fitted = sym.Or(fitted, vFits(cur, w, max))
			return true
		case 1: // termination
			sym.SetNow(t0 + int64(waits)*60_000_000)
			s.Terminate()
			max = dag.Metric{}
			terminated = true
			return true
		default: // nobody ever signals again; time passes beyond the deadline
			sym.SetNow(t0 + int64(waits)*60_000_000 + timeout + 1)
			sym.FireTimers()
			return false
		}
	})
	var ok bool
	blocked := sym.RunUntilBlocked(func() { ok = s.Acquire(w, time.Duration(timeout)) })
	if blocked {
		sym.Reach("blocked")
		if sym.Known("C30-acquire-no-timeout") {
			return
		}
	}
	sym.Assert(!blocked, "Acquire returns once its timeout has expired even if nobody releases")
	if blocked {
		return
	}
	tooBig := sym.Or(w.Num > max.Num, w.Size > max.Size)
	sym.Assert(sym.Implies(ok, fitted), "Acquire grants only a request that fitted at one of its checks")
	sym.Assert(sym.Implies(sym.And(tooBig, waits == 0), !ok), "a request above the capacity is refused")
	if ok {
		sym.Assert(vLE(s.Processing(), max) || waits > 0, "the held amount never exceeds the capacity")
		sym.Reach("acquired")
	} else {
		sym.Reach("gave-up")
	}
	if waits > 0 {
		sym.Reach("waited")
	}
}
