package wlru

import (
	"github.com/Fantom-foundation/lachesis-base/zzverif/sym"
)

// reference model: slice of entries, oldest first
type vEnt struct {
	k uint8
	v uint32
	w uint
}

type vModel struct {
	ents    []vEnt
	maxW    uint
	maxS    int
	evicted []vEnt
}

func (m *vModel) weight() (w uint) {
	for _, e := range m.ents {
		w += e.w
	}
	return
}

func (m *vModel) find(k uint8) int {
	for i, e := range m.ents {
		if e.k == k {
			return i
		}
	}
	return -1
}

func (m *vModel) removeAt(i int) {
	m.evicted = append(m.evicted, m.ents[i])
	m.ents = append(m.ents[:i:i], m.ents[i+1:]...)
}

func (m *vModel) normalize() (n int) {
	for len(m.ents) > 0 && (m.weight() > m.maxW || len(m.ents) > m.maxS) {
		m.removeAt(0)
		n++
	}
	return
}

func (m *vModel) add(k uint8, v uint32, w uint) int {
	if i := m.find(k); i >= 0 {
		m.ents = append(m.ents[:i:i], m.ents[i+1:]...)
	}
	m.ents = append(m.ents, vEnt{k, v, w})
	return m.normalize()
}

func (m *vModel) touch(i int) {
	e := m.ents[i]
	m.ents = append(m.ents[:i:i], m.ents[i+1:]...)
	m.ents = append(m.ents, e)
}

type vHarness struct {
	c       *Cache
	m       *vModel
	evicted []vEnt
}

func (h *vHarness) check(step string) {
	w, n := h.c.Total()
	sym.Assert(n <= h.m.maxS, "entries within the size bound")
	sym.Assert(w <= h.m.maxW, "weight within the weight bound")
	sym.Assert(n == len(h.m.ents) && h.c.Len() == n, "Len equals the model")
	sym.Assert(w == h.m.weight() && h.c.Weight() == w, "Weight equals the model")
	keys := h.c.Keys()
	sym.Assert(len(keys) == len(h.m.ents), "Keys length")
	if len(keys) == len(h.m.ents) {
		for i, k := range keys {
			sym.Assert(k.(uint8) == h.m.ents[i].k, "Keys oldest to newest")
		}
	}
	// every removed entry reported to the callback exactly once, in eviction order
	sym.Assert(len(h.evicted) == len(h.m.evicted), "eviction callback count")
	if len(h.evicted) == len(h.m.evicted) {
		for i := range h.evicted {
			sym.Assert(h.evicted[i] == vEnt{h.m.evicted[i].k, h.m.evicted[i].v, 0}, "eviction callback order and content")
		}
	}
}

func newVHarness() *vHarness {
	h := &vHarness{}
	maxW := uint(sym.U32("maxW"))
	maxS := int(sym.U8("maxS"))
	sym.Assume(maxS <= 3)
	maxS = sym.ConcreteInt(maxS)
	c, err := NewWithEvict(maxW, maxS, func(k, v interface{}) {
		h.evicted = append(h.evicted, vEnt{k.(uint8), v.(uint32), 0})
	})
	if err != nil {
		panic(err)
	}
	h.c, h.m = c, &vModel{maxW: maxW, maxS: maxS}
	return h
}

var vNames = [...][3]string{{"k0", "v0", "w0"}, {"k1", "v1", "w1"}, {"k2", "v2", "w2"}, {"k3", "v3", "w3"}, {"k4", "v4", "w4"}}

func (h *vHarness) arg(i int) (uint8, uint32, uint) {
	k, v, w := sym.U8(vNames[i][0]), sym.U32(vNames[i][1]), uint(sym.U32(vNames[i][2]))
	sym.Assume(k < 3)
	return k, v, w
}

func (h *vHarness) build(n int) {
	for i := 0; i < n; i++ {
		k, v, w := h.arg(i)
		ev := h.c.Add(k, v, w)
		sym.Assert(ev == h.m.add(k, v, w), "Add returns the number of evictions")
		h.check("build")
	}
}

func (h *vHarness) op(name string, i int) {
	k, v, w := h.arg(i)
	m := h.m
	switch sym.Choice(name, 12) {
	case 0:
		ev := h.c.Add(k, v, w)
		sym.Assert(ev == m.add(k, v, w), "Add returns the number of evictions")
	case 1:
		val, ok := h.c.Get(k)
		j := m.find(k)
		sym.Assert(ok == (j >= 0), "Get finds exactly the cached keys")
		if j >= 0 {
			sym.Assert(ok && val.(uint32) == m.ents[j].v, "Get returns the cached value")
			m.touch(j) // get refreshes recency
		}
	case 2:
		val, ok := h.c.Peek(k)
		j := m.find(k)
		sym.Assert(ok == (j >= 0), "Peek finds exactly the cached keys")
		if j >= 0 {
			sym.Assert(ok && val.(uint32) == m.ents[j].v, "Peek returns the cached value")
		}
	case 3:
		sym.Assert(h.c.Contains(k) == (m.find(k) >= 0), "Contains")
	case 4:
		present := h.c.Remove(k)
		j := m.find(k)
		sym.Assert(present == (j >= 0), "Remove reports presence")
		if j >= 0 {
			m.removeAt(j)
		}
	case 5:
		key, val, ok := h.c.RemoveOldest()
		sym.Assert(ok == (len(m.ents) > 0), "RemoveOldest ok")
		if len(m.ents) > 0 {
			sym.Assert(ok && key.(uint8) == m.ents[0].k && val.(uint32) == m.ents[0].v, "RemoveOldest returns the LRU entry")
			m.removeAt(0)
		}
	case 6:
		key, val, ok := h.c.GetOldest()
		sym.Assert(ok == (len(m.ents) > 0), "GetOldest ok")
		if len(m.ents) > 0 {
			sym.Assert(ok && key.(uint8) == m.ents[0].k && val.(uint32) == m.ents[0].v, "GetOldest returns the LRU entry")
		}
	case 7:
		ns := int(k) // 0..2
		m.maxW, m.maxS = w, ns
		ev := h.c.Resize(w, ns)
		sym.Assert(ev == m.normalize(), "Resize returns the number of evictions")
	case 8:
		h.c.Purge()
		// purge reports every entry once (order unspecified: map iteration); compare as multiset below
		for len(m.ents) > 0 {
			m.removeAt(0)
		}
		h.checkPurge()
		return
	case 9:
		found, ev := h.c.ContainsOrAdd(k, v, w)
		j := m.find(k)
		sym.Assert(found == (j >= 0), "ContainsOrAdd reports presence")
		if j >= 0 {
			sym.Assert(ev == 0, "ContainsOrAdd on a present key evicts nothing")
		} else {
			sym.Assert(ev == m.add(k, v, w), "ContainsOrAdd adds an absent key")
		}
	case 10:
		prev, found, ev := h.c.PeekOrAdd(k, v, w)
		j := m.find(k)
		sym.Assert(found == (j >= 0), "PeekOrAdd reports presence")
		if j >= 0 {
			sym.Assert(found && ev == 0 && prev.(uint32) == m.ents[j].v, "PeekOrAdd returns the previous value without refreshing")
		} else {
			sym.Assert(prev == nil && ev == m.add(k, v, w), "PeekOrAdd adds an absent key")
		}
	case 11:
		// re-add of the same key with a new weight refreshes recency and replaces value/weight
		if len(m.ents) > 0 {
			k0 := m.ents[0].k
			ev := h.c.Add(k0, v, w)
			sym.Assert(ev == m.add(k0, v, w), "re-Add returns the number of evictions")
		}
	}
	h.check("op")
}

// purge: callback order follows map iteration; check as a multiset
func (h *vHarness) checkPurge() {
	sym.Assert(h.c.Len() == 0 && h.c.Weight() == 0 && len(h.c.Keys()) == 0, "Purge empties the cache")
	sym.Assert(len(h.evicted) == len(h.m.evicted), "Purge reports every entry exactly once (count)")
	if len(h.evicted) != len(h.m.evicted) {
		return
	}
	used := make([]bool, len(h.evicted))
	for _, want := range h.m.evicted {
		hit := false
		for i, got := range h.evicted {
			if !used[i] && got == (vEnt{want.k, want.v, 0}) {
				used[i], hit = true, true
				break
			}
		}
		sym.Assert(hit, "Purge reports every entry exactly once")
	}
}

// VerifH_C29_step: arbitrary reachable state (<=3 adds over keys {0,1,2}, arbitrary
// weights and bounds) followed by ONE arbitrary operation of the full API.
func VerifH_C29_step() {
	h := newVHarness()
	h.build(sym.Choice("nbuild", 4))
	h.op("op", 3)
	sym.Reach("step")
}

// VerifH_C29_two: two arbitrary operations after a 2-add state.
func VerifH_C29_two() {
	h := newVHarness()
	h.build(2)
	h.op("op1", 2)
	h.op("op2", 3)
	sym.Reach("two")
}
