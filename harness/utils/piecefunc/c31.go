package piecefunc

import (
	"github.com/Fantom-foundation/lachesis-base/zzverif/sym"
)

var (
	vnX = [...]string{"x0", "x1", "x2", "x3", "x4"}
	vnY = [...]string{"y0", "y1", "y2", "y3", "y4"}
)

func vDots(n int) []Dot {
	dots := make([]Dot, n)
	for i := range dots {
		dots[i] = Dot{X: sym.U64(vnX[i]), Y: sym.U64(vnY[i])}
	}
	return dots
}

// VerifH_C31_validity: NewFunc rejects (panics on) exactly the invalid dot lists.
func verifC31Validity(n int) {
	sym.IntMode(true)
	dots := vDots(n)
	valid := true
	for i, d := range dots {
		valid = sym.And(valid, sym.And(d.X <= maxVal, d.Y <= maxVal))
		if i > 0 {
			valid = sym.And(valid, dots[i-1].X < d.X)
		}
	}
	panicked := sym.Panics(func() { NewFunc(dots) })
	sym.Assert(panicked == !valid, "NewFunc panics exactly on invalid dot lists")
	if panicked {
		sym.Reach("rejected")
	} else {
		sym.Reach("accepted")
	}
}

// verifC31Value: for every valid list of n dots and every x: end values, exactness at the
// dots, range and rounding-error bound between neighbours, and no overflow in the computation.
func verifC31Value(n int) {
	sym.IntMode(true)
	dots := vDots(n)
	for i, d := range dots {
		sym.Assume(d.X <= maxVal && d.Y <= maxVal)
		if i > 0 {
			sym.Assume(dots[i-1].X < d.X)
		}
	}
	f := NewFunc(dots)
	x := sym.U64("x")
	before := sym.Overflows()
	y := f(x)
	wrapped := sym.Overflows() != before
	sym.Observe("y", y)
	// the value clauses first: a wrap-around that spoils the result is then reported with inputs that reproduce
	// natively; a wrap-around without visible effect is reported by the last assertion (engine-only observable)
	verifC31Clauses(dots, n, x, y)
	sym.Assert(!wrapped, "no intermediate product or sum overflows 64 bits")
}

func verifC31Clauses(dots []Dot, n int, x, y uint64) {
	if x < dots[0].X {
		sym.Assert(y == dots[0].Y, "before the first dot: its Y")
		sym.Reach("before")
		return
	}
	if x > dots[n-1].X {
		sym.Assert(y == dots[n-1].Y, "after the last dot: its Y")
		sym.Reach("after")
		return
	}
	for i := 0; i+1 < n; i++ {
		a, b := dots[i], dots[i+1]
		if !(a.X <= x && x <= b.X) {
			continue
		}
		if x == a.X {
			sym.Assert(y == a.Y, "exactly at a dot: its Y")
			sym.Reach("at-dot")
		}
		if x == b.X {
			sym.Assert(y == b.Y, "exactly at a dot: its Y")
		}
		lo, hi := a.Y, b.Y
		if lo > hi {
			lo, hi = hi, lo
		}
		sym.Assert(y <= hi, "between neighbours: at most the larger Y")
		sym.Assert(y+1 >= lo, "between neighbours: at least the smaller Y minus one")
		// |y - exact| <= |dY|/1e6 + 2, multiplied out with D = b.X-a.X:
		//   |y*D - (a.Y*D +- |dY|*t)| * 1e6 <= (|dY| + 2e6) * D,  t = x - a.X
		D, t := sym.ZU(b.X-a.X), sym.ZU(x-a.X)
		var exactD, absDY sym.Z
		if b.Y >= a.Y {
			absDY = sym.ZU(b.Y - a.Y)
			exactD = sym.ZAdd(sym.ZMul(sym.ZU(a.Y), D), sym.ZMul(absDY, t))
		} else {
			absDY = sym.ZU(a.Y - b.Y)
			exactD = sym.ZSub(sym.ZMul(sym.ZU(a.Y), D), sym.ZMul(absDY, t))
		}
		yD := sym.ZMul(sym.ZU(y), D)
		bound := sym.ZMul(sym.ZAdd(absDY, sym.ZU(2_000_000)), D)
		mega := sym.ZU(1_000_000)
		sym.Assert(sym.ZLe(sym.ZMul(sym.ZSub(yD, exactD), mega), bound), "result not above the exact interpolation by more than |dY|/1e6+2")
		sym.Assert(sym.ZLe(sym.ZMul(sym.ZSub(exactD, yD), mega), bound), "result not below the exact interpolation by more than |dY|/1e6+2")
		sym.Reach("between")
		return
	}
}

func VerifH_C31_validity2() { verifC31Validity(2) }
func VerifH_C31_validity3() { verifC31Validity(3) }
func VerifH_C31_value2()    { verifC31Value(2) }
func VerifH_C31_value3()    { verifC31Value(3) }
func VerifH_C31_value4()    { verifC31Value(4) }

// VerifH_C31_tooFew: fewer than two dots are rejected.
func VerifH_C31_tooFew() {
	sym.IntMode(true)
	d := vDots(1)
	sym.Assert(sym.Panics(func() { NewFunc(d) }) && sym.Panics(func() { NewFunc(nil) }), "fewer than two dots are rejected")
	sym.Reach("too-few")
}

// verifC31Long: a LONG table (n concrete dots with irregular coordinates, rising and falling pieces), every x:
// the same clauses.  (Symbolic coordinates are covered for 2-4 dots; the repository itself uses tables of 17+ dots.)
func verifC31Long(n int) {
	sym.IntMode(true)
	dots := make([]Dot, n)
	for i := range dots {
		dots[i] = Dot{X: uint64(i*1000 + i*i*7 + 3), Y: uint64((i*7919+13)%5000*1001 + 17)}
	}
	f := NewFunc(dots)
	x := sym.U64("x")
	before := sym.Overflows()
	y := f(x)
	wrapped := sym.Overflows() != before
	sym.Observe("y", y)
	verifC31Clauses(dots, n, x, y)
	sym.Assert(!wrapped, "no intermediate product or sum overflows 64 bits")
	sym.Reach("long")
}

func VerifH_C31_long9()  { verifC31Long(9) }
func VerifH_C31_long17() { verifC31Long(17) }
