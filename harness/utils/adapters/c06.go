package adapters

import (
	"github.com/Fantom-foundation/lachesis-base/hash"
	"github.com/Fantom-foundation/lachesis-base/inter/idx"
	"github.com/Fantom-foundation/lachesis-base/vecfc"
)

// VerifH_C06_adapter: the merged clock as abft and the emitter read it (through VectorToDagIndexer) obeys the
// clauses of C06 on every topology of 4 events over 2 validators.
func VerifH_C06_adapter() {
	vecfc.VerifC06Via(4, 2, 2, func(vi *vecfc.Index, id hash.Event, v idx.Validator) (idx.Event, bool) {
		s := (&VectorToDagIndexer{Index: vi}).GetMergedHighestBefore(id).Get(v)
		return s.Seq(), s.IsForkDetected()
	})
}
