package eventcheck

import (
	"github.com/Fantom-foundation/lachesis-base/eventcheck/basiccheck"
	"github.com/Fantom-foundation/lachesis-base/eventcheck/epochcheck"
	"github.com/Fantom-foundation/lachesis-base/eventcheck/parentscheck"
	"github.com/Fantom-foundation/lachesis-base/hash"
	"github.com/Fantom-foundation/lachesis-base/inter/dag"
	"github.com/Fantom-foundation/lachesis-base/inter/idx"
	"github.com/Fantom-foundation/lachesis-base/inter/pos"
	"github.com/Fantom-foundation/lachesis-base/zzverif/sym"
)

type verifReader struct {
	vv    *pos.Validators
	epoch idx.Epoch
}

func (r verifReader) GetEpochValidators() (*pos.Validators, idx.Epoch) { return r.vv, r.epoch }

const verifLimit = 1<<31 - 2 // values must be < 2^31-2

func verifC13(nParents int) {
	// the event: every field symbolic at full width
	seq, epoch, frame, lamport, creator := sym.U32("seq"), sym.U32("epoch"), sym.U32("frame"), sym.U32("lamport"), sym.U32("creator")
	curEpoch := sym.U32("curEpoch")
	v1, v2 := sym.U32("v1"), sym.U32("v2")
	sym.Assume(v1 < v2) // two distinct validator IDs (canonical order irrelevant here)
	b := pos.NewBuilder()
	b.Set(idx.ValidatorID(v1), 1)
	b.Set(idx.ValidatorID(v2), 1)
	checkers := &Checkers{
		Basiccheck:   basiccheck.New(),
		Epochcheck:   epochcheck.New(verifReader{b.Build(), idx.Epoch(curEpoch)}),
		Parentscheck: parentscheck.New(),
	}

	pcre := [...]string{"p0creator", "p1creator", "p2creator"}
	pseq := [...]string{"p0seq", "p1seq", "p2seq"}
	plam := [...]string{"p0lamport", "p1lamport", "p2lamport"}
	ptag := [...]string{"p0tag", "p1tag", "p2tag"}
	parents := make(dag.Events, nParents)
	ids := make(hash.Events, nParents)
	pc := make([]uint32, nParents)
	ps := make([]uint32, nParents)
	pl := make([]uint32, nParents)
	for i := 0; i < nParents; i++ {
		pc[i], ps[i], pl[i] = sym.U32(pcre[i]), sym.U32(pseq[i]), sym.U32(plam[i])
		pe := &dag.MutableBaseEvent{}
		pe.SetEpoch(idx.Epoch(epoch))
		pe.SetCreator(idx.ValidatorID(pc[i]))
		pe.SetSeq(idx.Event(ps[i]))
		pe.SetLamport(idx.Lamport(pl[i]))
		var tail [24]byte
		tail[0] = sym.U8(ptag[i]) // equal (lamport, tag) => duplicate parent IDs
		pe.SetID(tail)
		parents[i] = pe
		ids[i] = pe.ID()
	}
	e := &dag.MutableBaseEvent{}
	e.SetSeq(idx.Event(seq))
	e.SetEpoch(idx.Epoch(epoch))
	e.SetFrame(idx.Frame(frame))
	e.SetLamport(idx.Lamport(lamport))
	e.SetCreator(idx.ValidatorID(creator))
	e.SetParents(ids)

	err := checkers.Validate(e, parents)

	// ---- the statement, written directly ----
	inRange := func(x uint32) bool { return sym.And(x >= 1, x < verifLimit) }
	fields := sym.And(sym.And(inRange(seq), inRange(epoch)), sym.And(inRange(frame), inRange(lamport)))
	distinct := true
	for i := 0; i < nParents; i++ {
		for j := i + 1; j < nParents; j++ {
			distinct = sym.And(distinct, ids[i] != ids[j])
		}
	}
	present := sym.Implies(seq > 1, nParents > 0)
	epochOK := sym.And(epoch == curEpoch, sym.Or(creator == v1, creator == v2))
	var maxL uint32
	for i := 0; i < nParents; i++ {
		maxL = uint32(sym.Ite(pl[i] > maxL, uint64(pl[i]), uint64(maxL)))
	}
	lamportOK := lamport == maxL+1
	selfOK := true
	for i := 0; i < nParents; i++ {
		own := pc[i] == creator
		if i == 0 {
			// first parent is by the creator exactly when seq > 1, and then carries seq-1
			selfOK = sym.And(selfOK, sym.Iff(own, seq > 1))
			selfOK = sym.And(selfOK, sym.Implies(seq > 1, ps[0] == seq-1))
		} else {
			selfOK = sym.And(selfOK, sym.Not(own))
		}
	}
	spec := sym.And(sym.And(sym.And(fields, distinct), sym.And(present, epochOK)), sym.And(lamportOK, selfOK))
	sym.Assert(sym.Iff(err == nil, spec), "Validate accepts exactly the well-formed events")
	if err == nil {
		sym.Reach("accepted")
	} else {
		sym.Reach("rejected")
	}
	sym.Observe("accepted", err == nil)
}

func VerifH_C13_parents0() { verifC13(0) }
func VerifH_C13_parents1() { verifC13(1) }
func VerifH_C13_parents2() { verifC13(2) }
func VerifH_C13_parents3() { verifC13(3) }

// VerifH_C13_mismatch: the documented precondition: a parents argument of the wrong length panics.
func VerifH_C13_mismatch() {
	e := &dag.MutableBaseEvent{}
	e.SetSeq(1)
	e.SetEpoch(1)
	e.SetFrame(1)
	e.SetLamport(idx.Lamport(sym.U32("lamport")))
	e.SetParents(hash.Events{hash.Event{1}})
	p := sym.Panics(func() { parentscheck.New().Validate(e, nil) })
	sym.Assert(p, "parents argument of wrong length panics")
	sym.Reach("mismatch")
}
