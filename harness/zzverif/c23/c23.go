// Package c23 holds the harness comparing every encodable backend/wrapper
// stacking with the ordered byte-string map model.
package c23

import (
	"bytes"
	"sync"

	"github.com/Fantom-foundation/lachesis-base/kvdb"
	"github.com/Fantom-foundation/lachesis-base/kvdb/flushable"
	"github.com/Fantom-foundation/lachesis-base/kvdb/memorydb"
	"github.com/Fantom-foundation/lachesis-base/kvdb/synced"
	"github.com/Fantom-foundation/lachesis-base/kvdb/table"
	"github.com/Fantom-foundation/lachesis-base/zzverif/sym"
	"github.com/Fantom-foundation/lachesis-base/zzverif/symkv"
	"github.com/Fantom-foundation/lachesis-base/zzverif/vstore"
)

func stack(kind int) kvdb.Store {
	mem := memorydb.New()
	switch kind {
	case 0:
		return mem
	case 1:
		return table.New(mem, []byte("t"))
	case 2:
		return flushable.Wrap(mem)
	case 3:
		return synced.WrapStore(mem, new(sync.RWMutex))
	case 4:
		return table.New(flushable.Wrap(mem), []byte{0xff})
	case 5:
		// foreign data next to the table must stay invisible
		mem.Put([]byte("s"), []byte{1})
		mem.Put([]byte("u"), []byte{1})
		mem.Put([]byte("t"), []byte{1})
		return table.New(mem, []byte("t")).NewTable([]byte{0})
	}
	panic("kind")
}

func run(kind int) {
	db := stack(kind)
	model := &vstore.Map{}
	// a pre-existing pair, then one arbitrary write
	// the pre-existing key may be EMPTY (a legal key of every backend and wrapper; under a table it is stored
	// as the bare prefix)
	k0, v0 := symkv.Bytes("k0", 0, 1), symkv.Bytes("v0", 0, 1)
	if len(k0) == 0 {
		sym.Reach("empty-key")
	}
	sym.Assert(db.Put(k0, v0) == nil, "Put")
	model.Set(k0, v0)
	k1, v1 := symkv.Key("k1", 2), symkv.Bytes("v1", 0, 1)
	switch sym.Choice("op", 4) {
	case 0:
		sym.Assert(db.Put(k1, v1) == nil, "Put")
		model.Set(k1, v1)
	case 1:
		sym.Assert(db.Delete(k1) == nil, "Delete")
		model.Del(k1)
	case 2:
		b := db.NewBatch()
		b.Put(k1, v1)
		b.Delete(k0)
		sym.Assert(b.ValueSize() >= len(k1)+len(v1), "batch size")
		sym.Assert(b.Write() == nil, "batch Write")
		model.Set(k1, v1)
		model.Del(k0)
	case 3:
		// a batch replayed into the model store carries the same operations in order
		b := db.NewBatch()
		b.Put(k1, v1)
		b.Delete(k0)
		b.Put(k0, []byte{9})
		rec := vstore.New()
		sym.Assert(b.Replay(rec) == nil, "Replay")
		want := &vstore.Map{}
		want.Set(k1, v1)
		want.Del(k0)
		want.Set(k0, []byte{9})
		sym.Assert(symkv.EqPairs(rec.M.Range(nil, nil), want.Range(nil, nil)), "Replay reproduces the batch in order")
		sym.Assert(b.Write() == nil, "batch Write")
		model = mergeInto(model, want)
	}
	switch sym.Choice("read", 3) {
	case 0:
		k := symkv.Key("rk", 2)
		got, err := db.Get(k)
		has, err2 := db.Has(k)
		sym.Assert(err == nil && err2 == nil, "reads succeed")
		if i := model.Find(k); i >= 0 {
			sym.Assert(has && got != nil && bytes.Equal(got, model.Pairs[i].V), "Get/Has: present key (empty value is present)")
		} else {
			sym.Assert(!has && got == nil, "Get/Has: absent key")
		}
	case 1:
		p, st := symkv.Bytes("ip", 0, 1), symkv.Bytes("st", 0, 1)
		got := vstore.Collect(db.NewIterator(p, st))
		sym.Assert(symkv.EqPairs(got, model.Range(p, st)), "prefix-and-start iteration is the ordered-map range")
	case 2:
		snap, err := db.GetSnapshot()
		sym.Assert(err == nil, "GetSnapshot")
		frozen := model.Copy()
		db.Put(k1, []byte{8})
		db.Delete(k0)
		got := vstore.Collect(snap.NewIterator(nil, nil))
		sym.Assert(symkv.EqPairs(got, frozen.Range(nil, nil)), "snapshot is frozen")
		snap.Release()
	}
	sym.Reach("stack")
}

func mergeInto(m, w *vstore.Map) *vstore.Map {
	for _, p := range w.Pairs {
		m.Set(p.K, p.V)
	}
	return m
}

func VerifH_C23_memory()         { run(0) }
func VerifH_C23_table()          { run(1) }
func VerifH_C23_flushable()      { run(2) }
func VerifH_C23_synced()         { run(3) }
func VerifH_C23_tableFlushable() { run(4) }
func VerifH_C23_nestedTable()    { run(5) }
