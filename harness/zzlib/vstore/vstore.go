// Package vstore is the reference ("ordered byte-string map") key-value store
// used by the kvdb harnesses: an unsorted list of unique keys, with every
// operation written in the most direct way.  It serves both as the underlying
// store below the wrapper under test and as the oracle.
package vstore

import (
	"bytes"
	"errors"

	"github.com/Fantom-foundation/lachesis-base/kvdb"
)

type Pair struct {
	K, V []byte
}

// Map is the plain model: unique keys, no order.
type Map struct {
	Pairs []Pair
}

func cp(b []byte) []byte {
	if b == nil {
		return nil
	}
	return append([]byte{}, b...)
}

func (m *Map) Find(k []byte) int {
	for i := range m.Pairs {
		if bytes.Equal(m.Pairs[i].K, k) {
			return i
		}
	}
	return -1
}

func (m *Map) Set(k, v []byte) {
	if i := m.Find(k); i >= 0 {
		m.Pairs[i].V = cp(v)
		return
	}
	if v == nil {
		v = []byte{}
	}
	m.Pairs = append(m.Pairs, Pair{cp(k), cp(v)})
}

func (m *Map) Del(k []byte) {
	if i := m.Find(k); i >= 0 {
		m.Pairs = append(m.Pairs[:i:i], m.Pairs[i+1:]...)
	}
}

func (m *Map) Copy() *Map {
	c := &Map{}
	for _, p := range m.Pairs {
		c.Pairs = append(c.Pairs, Pair{cp(p.K), cp(p.V)})
	}
	return c
}

// Range returns the pairs with the given prefix whose key is >= prefix||start, ascending.
func (m *Map) Range(prefix, start []byte) []Pair {
	lo := append(cp(prefix), start...)
	var res []Pair
	for _, p := range m.Pairs {
		if bytes.HasPrefix(p.K, prefix) && bytes.Compare(p.K, lo) >= 0 {
			res = append(res, p)
		}
	}
	// insertion sort, ascending
	for i := 1; i < len(res); i++ {
		for j := i; j > 0 && bytes.Compare(res[j-1].K, res[j].K) > 0; j-- {
			res[j-1], res[j] = res[j], res[j-1]
		}
	}
	return res
}

// ---------------------------------------------------------------------
// Store: kvdb.Store over a Map, counting durable steps.

type Store struct {
	M       *Map
	Closed  bool
	Dropped bool
	Steps   *int // shared durable-step counter (may be nil)
	OnStep  func() // called before every durable mutation (crash injection); may be nil
	Compacts [][2][]byte
}

func New() *Store { return &Store{M: &Map{}} }

var ErrClosed = errors.New("vstore: closed")

func (s *Store) step() {
	if s.OnStep != nil {
		s.OnStep()
	}
	if s.Steps != nil {
		*s.Steps++
	}
}

func (s *Store) Has(key []byte) (bool, error) { return s.M.Find(key) >= 0, nil }

func (s *Store) Get(key []byte) ([]byte, error) {
	if i := s.M.Find(key); i >= 0 {
		return cp(s.M.Pairs[i].V), nil
	}
	return nil, nil
}

func (s *Store) Put(key, value []byte) error {
	s.step()
	s.M.Set(key, value)
	return nil
}

func (s *Store) Delete(key []byte) error {
	s.step()
	s.M.Del(key)
	return nil
}

func (s *Store) NewBatch() kvdb.Batch { return &batch{s: s} }

func (s *Store) NewIterator(prefix, start []byte) kvdb.Iterator {
	return &iterator{pairs: s.M.Copy().Range(prefix, start), pos: -1}
}

func (s *Store) GetSnapshot() (kvdb.Snapshot, error) { return &snapshot{Store{M: s.M.Copy()}}, nil }

func (s *Store) Stat(property string) (string, error) { return "", nil }

func (s *Store) Compact(start, limit []byte) error {
	s.Compacts = append(s.Compacts, [2][]byte{start, limit})
	return nil
}

func (s *Store) Close() error {
	s.Closed = true
	return nil
}

func (s *Store) Drop() { s.Dropped = true }

type snapshot struct{ Store }

func (s *snapshot) Release() {}

type op struct {
	k, v []byte
	del  bool
}

type batch struct {
	s    *Store
	ops  []op
	size int
}

func (b *batch) Put(key, value []byte) error {
	if value == nil {
		value = []byte{}
	}
	b.ops = append(b.ops, op{cp(key), cp(value), false})
	b.size += len(key) + len(value)
	return nil
}

func (b *batch) Delete(key []byte) error {
	b.ops = append(b.ops, op{cp(key), nil, true})
	b.size += len(key)
	return nil
}

func (b *batch) ValueSize() int { return b.size }

// Write applies the batch atomically (one durable step).
func (b *batch) Write() error {
	b.s.step()
	for _, o := range b.ops {
		if o.del {
			b.s.M.Del(o.k)
		} else {
			b.s.M.Set(o.k, o.v)
		}
	}
	return nil
}

func (b *batch) Reset() { b.ops, b.size = nil, 0 }

func (b *batch) Replay(w kvdb.Writer) error {
	for _, o := range b.ops {
		var err error
		if o.del {
			err = w.Delete(o.k)
		} else {
			err = w.Put(o.k, o.v)
		}
		if err != nil {
			return err
		}
	}
	return nil
}

type iterator struct {
	pairs []Pair
	pos   int
}

func (it *iterator) Next() bool {
	if it.pos+1 < len(it.pairs) {
		it.pos++
		return true
	}
	it.pos = len(it.pairs)
	return false
}
func (it *iterator) Error() error { return nil }
func (it *iterator) Key() []byte {
	if it.pos < 0 || it.pos >= len(it.pairs) {
		return nil
	}
	return it.pairs[it.pos].K
}
func (it *iterator) Value() []byte {
	if it.pos < 0 || it.pos >= len(it.pairs) {
		return nil
	}
	return it.pairs[it.pos].V
}
func (it *iterator) Release() {}

// Collect drains an iterator into pairs (copies).
func Collect(it kvdb.Iterator) []Pair {
	var res []Pair
	for it.Next() {
		res = append(res, Pair{cp(it.Key()), cp(it.Value())})
	}
	it.Release()
	return res
}

// ---------------------------------------------------------------------
// FS: a set of named durable stores with a global durable-step counter and crash injection.
// Every put / delete / batch write / database drop is one durable step; when the counter reaches
// CrashAt the step is NOT applied and Crash is raised as a panic.

type Crash struct{}

type FS struct {
	DBs     map[string]*Store
	Order   []string // names in creation order (deterministic Names())
	Steps   int
	CrashAt int // -1: never
}

func NewFS() *FS { return &FS{DBs: map[string]*Store{}, CrashAt: -1} }

func (fs *FS) step() {
	if fs.Steps == fs.CrashAt {
		panic(Crash{})
	}
	fs.Steps++
}

type fsStore struct {
	*Store
	fs   *FS
	name string
}

func (s *fsStore) Drop() {
	s.fs.step()
	delete(s.fs.DBs, s.name)
}

func (s *fsStore) Close() error { return nil }

// OpenDB returns the named store, creating an empty one if needed (creation itself is not a durable step:
// an absent and an empty database are equivalent).
func (fs *FS) OpenDB(name string) (kvdb.Store, error) {
	st, ok := fs.DBs[name]
	if !ok {
		st = New()
		st.OnStep = fs.step
		fs.DBs[name] = st
		fs.Order = append(fs.Order, name)
	}
	return &fsStore{st, fs, name}, nil
}

func (fs *FS) Names() []string {
	var res []string
	for _, n := range fs.Order {
		if _, ok := fs.DBs[n]; ok {
			res = append(res, n)
		}
	}
	return res
}

// Snapshot copies the data of every database (keys other than skipKey).
func (fs *FS) Snapshot(skipKey []byte) map[string]*Map {
	res := map[string]*Map{}
	for n, st := range fs.DBs {
		m := &Map{}
		for _, p := range st.M.Pairs {
			if !bytes.Equal(p.K, skipKey) {
				m.Set(p.K, p.V)
			}
		}
		res[n] = m
	}
	return res
}

// Reopen returns an FS over the same durable contents with crash injection off (the restarted process).
func (fs *FS) Reopen() *FS {
	r := NewFS()
	for n, st := range fs.DBs {
		c := New()
		c.M = st.M.Copy()
		c.OnStep = r.step
		r.DBs[n] = c
	}
	for _, n := range fs.Order {
		if _, ok := r.DBs[n]; ok {
			r.Order = append(r.Order, n)
		}
	}
	return r
}

// FullProducer adapts an FS to kvdb.FullDBProducer (flushes are no-ops: the stores are durable at once).
type FullProducer struct{ *FS }

func (p FullProducer) NotFlushedSizeEst() int                           { return 0 }
func (p FullProducer) Flush(id []byte) error                            { return nil }
func (p FullProducer) Initialize(n []string, id []byte) ([]byte, error) { return id, nil }
func (p FullProducer) Close() error                                     { return nil }
