// Package symkv builds symbolic keys/values for the kvdb harnesses.
package symkv

import (
	"bytes"

	"github.com/Fantom-foundation/lachesis-base/zzverif/sym"
	"github.com/Fantom-foundation/lachesis-base/zzverif/vstore"
)

var digits = [...]string{"0", "1", "2", "3"}

// Bytes returns a byte string of length minLen..maxLen whose bytes are arbitrary.
func Bytes(name string, minLen, maxLen int) []byte {
	n := minLen + sym.Choice(name+"_len", maxLen-minLen+1)
	b := make([]byte, n)
	for i := 0; i < n; i++ {
		b[i] = sym.U8(name + "_" + digits[i])
	}
	return b
}

// Key: 1..maxLen arbitrary bytes (never nil).
func Key(name string, maxLen int) []byte { return Bytes(name, 1, maxLen) }

// Val: empty (non-nil) or one arbitrary byte.
func Val(name string) []byte { return Bytes(name, 0, 1) }

// EqPairs: same keys and values in the same order (branch-free over the bytes).
func EqPairs(a, b []vstore.Pair) bool {
	if len(a) != len(b) {
		return false
	}
	ok := true
	for i := range a {
		ok = sym.And(ok, sym.And(bytes.Equal(a[i].K, b[i].K), bytes.Equal(a[i].V, b[i].V)))
	}
	return ok
}

// EqBytes compares including nil-ness.
func EqBytes(a, b []byte) bool {
	if (a == nil) != (b == nil) {
		return false
	}
	return bytes.Equal(a, b)
}
