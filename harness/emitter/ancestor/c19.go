package ancestor

import (
	"math/rand"

	"github.com/Fantom-foundation/lachesis-base/hash"
	"github.com/Fantom-foundation/lachesis-base/zzverif/sym"
)

func vUniverse() [4]hash.Event {
	var u [4]hash.Event
	for i := range u {
		u[i] = hash.Event{0, 0, 0, 1, 0, 0, 0, 1, byte(i + 1)}
	}
	return u
}

type vAdversary struct{ names []string; n *int }

func (a vAdversary) Choose(_ hash.Events, options hash.Events) int {
	k := sym.Choice(a.names[*a.n], len(options))
	*a.n++
	return k
}

// VerifH_C19_choose: ChooseParents with 0-2 existing parents and 0-3 options drawn from a
// 4-hash universe (overlaps and duplicate options arise), 0-3 strategies (metric with arbitrary
// metrics, seeded random, adversarial), every iteration order of the option set.
func VerifH_C19_choose() {
	u := vUniverse()
	nE, nO, nS := sym.Choice("nExisting", 3), sym.Choice("nOptions", 4), sym.Choice("nStrategies", 3)
	en := [...]string{"e0", "e1"}
	on := [...]string{"o0", "o1", "o2"}
	sn := [...]string{"s0", "s1", "s2"}
	mn := [...]string{"m0", "m1", "m2", "m3"}
	var existing, options hash.Events
	for i := 0; i < nE; i++ {
		existing = append(existing, u[sym.Choice(en[i], 3)])
	}
	if nE == 2 {
		sym.Assume(existing[0] != existing[1]) // the given parents are distinct
	}
	for i := 0; i < nO; i++ {
		options = append(options, u[sym.Choice(on[i], 3)])
	}
	metrics := map[hash.Event]Metric{}
	for i := range u {
		metrics[u[i]] = Metric(sym.U64(mn[i]))
	}
	advCount := 0
	var strategies []SearchStrategy
	for i := 0; i < nS; i++ {
		kind := 2 // adversarial strategies subsume the others here
		if i == 0 {
			kind = sym.Choice(sn[i], 3)
		}
		switch kind {
		case 0:
			strategies = append(strategies, NewMetricStrategy(func(h hash.Event) Metric { return metrics[h] }))
		case 1:
			strategies = append(strategies, NewRandomStrategy(rand.New(rand.NewSource(int64(7+i)))))
		case 2:
			strategies = append(strategies, vAdversary{[]string{"adv0", "adv1", "adv2"}, &advCount})
		}
	}
	sym.NondetMaps(true)
	res := ChooseParents(existing, options, strategies)
	sym.NondetMaps(false)

	// distinct offered options that are not already parents
	var fresh hash.Events
	for _, o := range options {
		dup := false
		for _, f := range fresh {
			dup = dup || f == o
		}
		for _, e := range existing {
			dup = dup || e == o
		}
		if !dup {
			fresh = append(fresh, o)
		}
	}
	want := len(existing) + len(fresh)
	if nS < len(fresh) {
		want = len(existing) + nS
	}
	sym.Assert(len(res) == want, "one new parent per strategy, stopping early only when no options remain")
	sym.Assert(len(res) >= len(existing), "existing parents are kept")
	if len(res) < len(existing) {
		return
	}
	for i, e := range existing {
		sym.Assert(res[i] == e, "existing parents come first and in order")
	}
	for i := len(existing); i < len(res); i++ {
		offered := false
		for _, f := range fresh {
			offered = offered || f == res[i]
		}
		sym.Assert(offered, "only offered options that are not parents yet are added")
		for j := 0; j < i; j++ {
			sym.Assert(res[j] != res[i], "no parent is repeated")
		}
	}
	if len(res) > len(existing) {
		sym.Reach("added")
	}
	sym.Reach("choose")
}

// VerifH_C19_metric: the metric strategy picks an option of maximal metric (1-4 options, arbitrary metrics).
func VerifH_C19_metric() {
	u := vUniverse()
	n := 1 + sym.Choice("n", 4)
	mn := [...]string{"m0", "m1", "m2", "m3"}
	var options hash.Events
	ms := make([]Metric, n)
	for i := 0; i < n; i++ {
		options = append(options, u[i])
		ms[i] = Metric(sym.U64(mn[i]))
	}
	st := NewMetricStrategy(func(h hash.Event) Metric {
		for i := range options {
			if options[i] == h {
				return ms[i]
			}
		}
		return 0
	})
	k := st.Choose(nil, options)
	sym.Assert(k >= 0 && k < n, "chosen index is in range")
	if k < 0 || k >= n {
		return
	}
	kc := sym.ConcreteInt(k)
	for i := 0; i < n; i++ {
		sym.Assert(ms[kc] >= ms[i], "the metric strategy picks an option of maximal metric")
	}
	sym.Reach("metric")
}
