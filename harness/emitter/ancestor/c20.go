package ancestor

import (
	"github.com/Fantom-foundation/lachesis-base/abft/dagidx"
	"github.com/Fantom-foundation/lachesis-base/hash"
	"github.com/Fantom-foundation/lachesis-base/inter/dag"
	"github.com/Fantom-foundation/lachesis-base/inter/idx"
	"github.com/Fantom-foundation/lachesis-base/inter/pos"
	"github.com/Fantom-foundation/lachesis-base/zzverif/sym"
)

const vForkSeq = idx.Event((1<<32-1)/2 - 1) // a detected fork counts as the maximal observation (MaxUint32/2-1)

type vSeq struct {
	seq  idx.Event
	fork bool
}

func (s vSeq) Seq() idx.Event        { return s.seq }
func (s vSeq) IsForkDetected() bool  { return s.fork }

type vClock []vSeq

func (c vClock) Size() int                    { return len(c) }
func (c vClock) Get(i idx.Validator) dagidx.Seq { return c[i] }

type vDagIndex map[hash.Event]vClock

func (d vDagIndex) GetMergedHighestBefore(id hash.Event) dagidx.HighestBeforeSeq { return d[id] }

func vEff(s vSeq) idx.Event {
	return idx.Event(sym.Ite(s.fork, uint64(vForkSeq), uint64(s.seq)))
}

// VerifH_C20_median: V=3, up to 3 processed events with symbolic creators, self flags and merged
// clocks (sequence or fork per validator), symbolic weights: medians and metrics follow the definition.
func VerifH_C20_median() {
	sym.IntMode(true)
	const V = 3
	wn := [...]string{"w0", "w1", "w2"}
	ids := make([]idx.ValidatorID, V)
	ws := make([]pos.Weight, V)
	var total uint64
	for i := 0; i < V; i++ {
		ids[i] = idx.ValidatorID(i + 1)
		ws[i] = pos.Weight(sym.U32(wn[i]))
		sym.Assume(ws[i] >= 1)
		if i > 0 {
			sym.Assume(ws[i-1] >= ws[i])
		}
		total += uint64(ws[i])
	}
	sym.Assume(total <= 1<<31-1)
	vals := pos.ArrayToValidators(ids, ws)
	Q := vals.Quorum()

	di := vDagIndex{}
	clockOf := func(tag string) vClock {
		c := make(vClock, V)
		names := [...][2]string{{tag + "_s0", tag + "_f0"}, {tag + "_s1", tag + "_f1"}, {tag + "_s2", tag + "_f2"}}
		for v := 0; v < V; v++ {
			if v == 0 {
				// the observations of validator 0 are symbolic (sequence or fork)
				c[v] = vSeq{seq: idx.Event(sym.U32(names[v][0])), fork: sym.Bool(names[v][1])}
				sym.Assume(c[v].seq < 1<<30)
			} else {
				// the other rows are concrete and differ per clock
				c[v] = vSeq{seq: idx.Event(len(tag)*7 + v*3 + int(tag[len(tag)-1])%5)}
			}
		}
		return c
	}
	// arbitrary linear diff function with distinct coefficients (any mix-up of its arguments shows)
	diff := func(median, current, update idx.Event, v idx.Validator) Metric {
		return Metric(1000003*uint64(median) + 1009*uint64(current) + 7*uint64(update) + uint64(v))
	}
	h := NewQuorumIndexer(vals, di, diff)
	var M [V][V]idx.Event // M[v][creator]: creator's latest observation of v
	var self [V]idx.Event
	nEv := 2 + sym.Choice("nEvents", 2)
	tags := [...]string{"ev0", "ev1", "ev2"}
	cn := [...]string{"creator0", "creator1", "creator2"}
	sn := [...]string{"self0", "self1", "self2"}
	for i := 0; i < nEv; i++ {
		e := &dag.MutableBaseEvent{}
		creator := i
		if i == nEv-1 {
			creator = sym.Choice(cn[i], V) // the last event may overwrite an earlier column
		}
		e.SetCreator(ids[creator])
		e.SetID([24]byte{byte(i + 1)})
		c := clockOf(tags[i])
		di[e.ID()] = c
		selfEvent := sym.Bool(sn[i])
		h.ProcessEvent(e, selfEvent)
		for v := 0; v < V; v++ {
			M[v][creator] = vEff(c[v])
			if selfEvent {
				self[v] = vEff(c[v])
			}
		}
	}
	medians := h.GetGlobalMedianSeqs()
	var wantMed [V]idx.Event
	for v := 0; v < V; v++ {
		// the largest s (among the observed values) that validators holding a quorum have reached
		var best idx.Event
		for j := 0; j < V; j++ {
			cnd := M[v][j]
			var w pos.Weight
			for i := 0; i < V; i++ {
				w += pos.Weight(sym.Ite(M[v][i] >= cnd, uint64(ws[i]), 0))
			}
			ok := w >= Q
			best = idx.Event(sym.Ite(sym.And(ok, cnd > best), uint64(cnd), uint64(best)))
		}
		wantMed[v] = best
		sym.Assert(medians[v] == best, "median = largest sequence reached by validators holding a quorum (fork = maximal, unobserved = 0)")
	}
	// metric of a candidate parent
	cand := &dag.MutableBaseEvent{}
	cand.SetID([24]byte{0xcc})
	cc := clockOf("cand")
	di[cand.ID()] = cc
	var want Metric
	for v := 0; v < V; v++ {
		want += diff(wantMed[v], self[v], vEff(cc[v]), idx.Validator(v))
	}
	sym.Assert(h.GetMetricOf(cand.ID()) == want, "metric = sum over validators of diff(median, own latest observation, candidate's observation)")
	if nEv == 3 {
		sym.Reach("three-events")
	}
	sym.Reach("median")
}
