package doublesign

import (
	"math"
	"time"

	"github.com/Fantom-foundation/lachesis-base/zzverif/sym"
)

const (
	vMaxDur = time.Duration(math.MaxInt64)
	vMinDur = time.Duration(math.MinInt64)
)

func vTime(name string) (time.Time, int64, int64) {
	sec, nsec := sym.I64(name+"_sec"), sym.I64(name+"_nsec")
	// every instant time.Unix can represent without wrapping its internal seconds counter
	sym.Assume(sec >= -(1<<62) && sec <= 1<<62 && nsec >= 0 && nsec < 1_000_000_000)
	return time.Unix(sec, nsec), sec, nsec
}

// VerifH_C21_synced: SyncedToEmit for every seven timestamps, every threshold and every peer count.
func VerifH_C21_synced() {
	sym.IntMode(true)
	var s SyncStatus
	s.PeersNum = sym.Int("peers")
	now, _, _ := vTime("now")
	s.Now = now
	s.Startup, _, _ = vTime("startup")
	ts := [5]time.Time{}
	names := [...]string{"detected", "created", "validator", "connected", "synced"}
	for i := range ts {
		ts[i], _, _ = vTime(names[i])
	}
	s.ExternalSelfEventDetected, s.ExternalSelfEventCreated, s.BecameValidator, s.LastConnected, s.P2PSynced = ts[0], ts[1], ts[2], ts[3], ts[4]
	threshold := time.Duration(sym.I64("threshold"))

	wait, err := SyncedToEmit(s, threshold)
	sym.Observe("wait", int64(wait))
	sym.Observe("permitted", err == nil)

	if s.PeersNum == 0 {
		sym.Assert(err == ErrNoConnections && wait == 0, "no peers: ErrNoConnections")
		sym.Reach("no-peers")
		return
	}
	if s.P2PSynced.IsZero() {
		sym.Assert(err == ErrP2PSyncOngoing && wait == 0, "P2P sync not finished: ErrP2PSyncOngoing")
		sym.Reach("not-synced")
		return
	}
	// "lies at least the threshold in the past": now - t >= threshold (difference saturated to the Duration range)
	allPast := true
	var maxRemain int64 // longest remaining time, capped at the largest duration
	for i := range ts {
		since := now.Sub(ts[i])
		sym.Observe("since", int64(since))
		past := since >= threshold
		allPast = sym.And(allPast, past)
		// remaining = threshold - since, exact (can exceed int64 when since is hugely negative): capped
		// exact computation without overflow: compare instead of subtracting
		over := sym.And(since < 0, threshold > vMaxDur+since) // threshold - since > MaxInt64
		remain := sym.IteI64(over, int64(vMaxDur), int64(threshold)-int64(since))
		remain = sym.IteI64(past, 0, remain)
		maxRemain = sym.IteI64(remain > maxRemain, remain, maxRemain)
	}
	if known := sym.Known("C21-far-future-wrap"); known {
		// open finding: a timestamp so far in the future that threshold - since exceeds the Duration range
		for i := range ts {
			since := now.Sub(ts[i])
			sym.Assume(!sym.And(since < 0, threshold > vMaxDur+since))
		}
	}
	sym.Assert(sym.Iff(err == nil, allPast), "emission permitted exactly when all five timestamps lie at least the threshold in the past")
	sym.Assert(sym.Implies(err != nil, wait > 0), "a refusal comes with a positive wait")
	sym.Assert(sym.Implies(err != nil, int64(wait) == maxRemain), "the wait is the longest remaining time (capped at the largest duration)")
	sym.Assert(sym.Implies(err == nil, wait == 0), "permission comes with zero wait")
	if err == nil {
		sym.Reach("permitted")
	} else {
		sym.Reach("refused")
	}
}

// VerifH_C21_parallel: DetectParallelInstance for all timestamps and thresholds.
func VerifH_C21_parallel() {
	sym.IntMode(true)
	var s SyncStatus
	s.Now, _, _ = vTime("now")
	s.Startup, _, _ = vTime("startup")
	s.ExternalSelfEventCreated, _, _ = vTime("created")
	threshold := time.Duration(sym.I64("threshold"))
	got := DetectParallelInstance(s, threshold)
	notOlder := sym.Not(s.ExternalSelfEventCreated.Before(s.Startup))
	younger := s.Now.Sub(s.ExternalSelfEventCreated) < threshold
	sym.Assert(sym.Iff(got, sym.And(notOlder, younger)), "parallel instance reported exactly when the external self-event is not older than startup and younger than the threshold")
	sym.Observe("parallel", got)
	sym.Reach("parallel")
}
