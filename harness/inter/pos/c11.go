package pos

import (
	"github.com/Fantom-foundation/lachesis-base/inter/idx"
	"github.com/Fantom-foundation/lachesis-base/zzverif/sym"
)

const verifMaxTotal = 1<<31 - 1

// VerifH_C11_quorum: quorum formula and its three set-theoretic consequences
// for EVERY total 1..2^31-1 (full width, no bound on the total).
func VerifH_C11_quorum() {
	T := sym.U32("T")
	sym.Assume(T >= 1 && T <= verifMaxTotal)
	vv := &Validators{cache: cache{totalWeight: Weight(T)}}
	q := vv.Quorum()
	sym.Observe("quorum", uint32(q))
	// reference in 64-bit arithmetic: a wrap of T*2 in 32 bits would show
	ref := uint64(T)*2/3 + 1
	sym.Assert(uint64(q) == ref, "quorum = floor(2T/3)+1 without overflow")
	sym.Assert(Weight(T) >= q, "whole set reaches quorum")
	// no subset holding at most two thirds reaches it
	s := sym.U32("s")
	sym.Assume(s <= T)
	sym.Assert(sym.Implies(3*uint64(s) <= 2*uint64(T), Weight(s) < q), "subset with at most 2/3 does not reach quorum")
	// two quorums share more than one third
	s1, s2 := sym.U32("s1"), sym.U32("s2")
	sym.Assume(s1 <= T && s2 <= T)
	both := sym.And(Weight(s1) >= q, Weight(s2) >= q)
	// overlap of two subsets is at least s1+s2-T
	sym.Assert(sym.Implies(both, 3*(uint64(s1)+uint64(s2)-uint64(T)) > uint64(T)), "two quorums intersect in more than 1/3")
	sym.Reach("quorum-checked")
}

func verifWeights(n int) ([]idx.ValidatorID, []Weight) {
	ids := make([]idx.ValidatorID, n)
	ws := make([]Weight, n)
	names := [...]string{"w0", "w1", "w2", "w3", "w4"}
	for i := 0; i < n; i++ {
		ids[i] = idx.ValidatorID(i + 1)
		ws[i] = Weight(sym.U32(names[i]))
	}
	return ids, ws
}

// VerifH_C11_calcCaches: building a set of 4 validators with arbitrary weights
// panics exactly when the true sum exceeds 2^31-1, otherwise the cached total is the sum.
func VerifH_C11_calcCaches() {
	const n = 4
	ids, ws := verifWeights(n)
	var sum uint64
	for _, w := range ws {
		sum += uint64(w)
	}
	var vv *Validators
	panicked := sym.Panics(func() { vv = ArrayToValidators(ids, ws) })
	sym.Assert(panicked == (sum > verifMaxTotal), "calcCaches panics iff the true total exceeds 2^31-1")
	if !panicked {
		sym.Reach("built")
		sym.Assert(uint64(vv.TotalWeight()) == sum, "cached total is the exact sum")
		sym.Observe("total", uint32(vv.TotalWeight()))
	} else {
		sym.Reach("overflow-panic")
	}
}

// VerifH_C11_counter: a weight counter fed with 4 symbolic indices (each explored
// for every value) counts each validator once, never wraps, and HasQuorum <=> counted
// weight >= quorum, for all weight vectors of 4 validators in canonical order.
func VerifH_C11_counter() {
	const n = 4
	ids, ws := verifWeights(n)
	var sum uint64
	for i, w := range ws {
		sym.Assume(w > 0)
		if i > 0 {
			sym.Assume(ws[i-1] >= w) // canonical order; the sort itself is C12's subject
		}
		sum += uint64(w)
	}
	sym.Assume(sum <= verifMaxTotal)
	vv := ArrayToValidators(ids, ws)
	c := vv.NewCounter()
	var counted [n]bool
	var ref uint64
	names := [...]string{"i0", "i1", "i2", "i3"}
	for k := 0; k < len(names); k++ {
		i := sym.U32(names[k])
		sym.Assume(i < n)
		var first bool
		if k%2 == 0 {
			first = c.CountByIdx(idx.Validator(i)) // symbolic index into the real `already` slice
		} else {
			first = c.Count(idx.ValidatorID(i + 1)) // symbolic ID through the real index map
		}
		ci := int(sym.Concrete(uint64(i)))
		sym.Assert(first == !counted[ci], "Count reports first-time counting")
		if !counted[ci] {
			counted[ci] = true
			ref += uint64(vv.GetWeightByIdx(idx.Validator(ci)))
		}
		sym.Assert(uint64(c.Sum()) == ref, "Sum is the weight of the distinct counted validators")
		sym.Assert(c.HasQuorum() == (ref >= uint64(vv.Quorum())), "HasQuorum iff counted weight >= quorum")
	}
	sym.Reach("counted")
}
