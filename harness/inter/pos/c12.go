package pos

import (
	"math/big"
	"math/bits"

	"github.com/Fantom-foundation/lachesis-base/inter/idx"
	"github.com/Fantom-foundation/lachesis-base/zzverif/sym"
)

type vPair struct {
	id idx.ValidatorID
	w  Weight
}

// canonical order: descending weight, ties by ascending ID (insertion sort, written directly)
func vCanonical(ps []vPair) []vPair {
	res := append([]vPair{}, ps...)
	for i := 1; i < len(res); i++ {
		for j := i; j > 0; j-- {
			a, b := res[j-1], res[j]
			if a.w > b.w || (a.w == b.w && a.id < b.id) {
				break
			}
			res[j-1], res[j] = b, a
		}
	}
	return res
}

func vCheckCanonical(vv *Validators, want []vPair) {
	sym.Assert(int(vv.Len()) == len(want), "Len = number of non-zero pairs")
	ids, ws := vv.SortedIDs(), vv.SortedWeights()
	sym.Assert(len(ids) == len(want) && len(ws) == len(want), "sorted slices have one entry per validator")
	if len(ids) != len(want) || len(ws) != len(want) {
		return
	}
	var total uint64
	for i, p := range want {
		sym.Assert(ids[i] == p.id && ws[i] == p.w, "canonical order: descending weight, ties by ascending ID")
		sym.Assert(vv.GetIdx(p.id) == idx.Validator(i) && vv.Idxs()[p.id] == idx.Validator(i), "index mapping follows the canonical order")
		sym.Assert(vv.Get(p.id) == p.w && vv.Exists(p.id) && vv.GetID(idx.Validator(i)) == p.id && vv.GetWeightByIdx(idx.Validator(i)) == p.w, "lookups agree with the pairs")
		total += uint64(p.w)
	}
	sym.Assert(uint64(vv.TotalWeight()) == total, "total = sum of the weights")
}

// VerifH_C12_canonical: n Set calls with arbitrary (ID, weight) pairs (zero weights delete,
// duplicate IDs overwrite), every map iteration order: the built set depends only on the final
// non-zero pairs and is in canonical order; re-building from the sorted array (what decoding does)
// and Copy give an equal set in the same order.
func verifC12Canonical(n int) {
	idn := [...]string{"id0", "id1", "id2", "id3"}
	wn := [...]string{"w0", "w1", "w2", "w3"}
	b := NewBuilder()
	var model []vPair
	var total uint64
	for i := 0; i < n; i++ {
		id, w := idx.ValidatorID(sym.U32(idn[i])), Weight(sym.U32(wn[i]))
		sym.Assume(uint32(w) <= 1<<29) // keeps the total below the 2^31-1 limit (the limit itself is C11)
		b.Set(id, w)
		// model: last write wins, zero deletes
		kept := model[:0:0]
		for _, p := range model {
			if p.id != id {
				kept = append(kept, p)
			}
		}
		model = kept
		if w != 0 {
			model = append(model, vPair{id, w})
		}
	}
	for _, p := range model {
		total += uint64(p.w)
	}
	sym.NondetMaps(true) // every iteration order of the maps ranged over while building
	vv := b.Build()
	sym.NondetMaps(false)
	want := vCanonical(model)
	vCheckCanonical(vv, want)
	// decode path: builder.Set over the sorted array, Build
	b2 := NewBuilder()
	for _, v := range vv.sortedArray() {
		b2.Set(v.ID, v.Weight)
	}
	vCheckCanonical(b2.Build(), want)
	vCheckCanonical(vv.Copy(), want)
	vCheckCanonical(vv.Builder().Build(), want)
	if len(want) >= 2 && want[0].w == want[1].w {
		sym.Reach("tie")
	}
	if len(want) < n {
		sym.Reach("dropped")
	}
	sym.Reach("canonical")
}

func VerifH_C12_canonical2() { verifC12Canonical(2) }
func VerifH_C12_canonical3() { verifC12Canonical(3) }

// ---- big stakes ----

// VerifH_C12_big: three arbitrary stakes of up to 96 bits through the real (pure-Go) math/big:
// Build never panics, every weight is stake >> s for one common s = max(0, bitlen(sum)-31),
// so the order of stakes is kept and the total fits the weight limit with s minimal.
func verifC12Big(n int) {
	hin := [...]string{"hi0", "hi1", "hi2"}
	lon := [...]string{"lo0", "lo1", "lo2"}
	his := make([]uint64, n)
	los := make([]uint64, n)
	b := NewBigBuilder()
	// exact sum in three 64-bit words
	var s0, s1, s2 uint64
	for i := 0; i < n; i++ {
		his[i], los[i] = uint64(sym.U32(hin[i])), sym.U64(lon[i])
		sym.Assume(his[i] != 0 || los[i] != 0) // zero stakes are removed by Set (checked separately)
		st := new(big.Int).SetUint64(his[i])
		st.Lsh(st, 64)
		st.Or(st, new(big.Int).SetUint64(los[i]))
		b.Set(idx.ValidatorID(i+1), st)
		var c uint64
		s0, c = bits.Add64(s0, los[i], 0)
		s1, c = bits.Add64(s1, his[i], c)
		s2 += c
	}
	var vv *Validators
	panicked := sym.Panics(func() { vv = b.Build() })
	sym.Assert(!panicked, "building from big stakes never panics")
	if panicked {
		return
	}
	// bit length of the sum and the common shift
	bl := bits.Len64(s0)
	if s1 != 0 {
		bl = 64 + bits.Len64(s1)
	}
	if s2 != 0 {
		bl = 128 + bits.Len64(s2)
	}
	s := 0
	if bl > 31 {
		s = bl - 31
	}
	s = sym.ConcreteInt(s)
	var total uint64
	for i := 0; i < n; i++ {
		// stake >> s, low 64 bits (the shifted stake is below 2^31)
		var sh uint64
		switch {
		case s == 0:
			sh = los[i]
		case s < 64:
			sh = los[i]>>uint(s) | his[i]<<uint(64-s)
		default:
			sh = his[i] >> uint(s-64)
		}
		want := Weight(sh)
		if want == 0 {
			sym.Assert(!vv.Exists(idx.ValidatorID(i+1)), "a stake scaled down to zero is dropped")
		} else {
			sym.Assert(vv.Get(idx.ValidatorID(i+1)) == want, "weight = stake >> s for one common shift s")
		}
		total += uint64(want)
	}
	sym.Assert(uint64(vv.TotalWeight()) == total && total <= 1<<31-1, "scaled total fits the weight limit")
	if s > 0 {
		sym.Reach("scaled")
	} else {
		sym.Reach("unscaled")
	}
	sym.Observe("shift", s)
}

func VerifH_C12_big2() { verifC12Big(2) }
func VerifH_C12_big3() { verifC12Big(3) }

// VerifH_C12_bigZero: nil and zero stakes are removed by Set.
func VerifH_C12_bigZero() {
	b := NewBigBuilder()
	b.Set(1, big.NewInt(int64(sym.U8("a"))+1))
	b.Set(2, new(big.Int))
	b.Set(3, nil)
	b.Set(1, new(big.Int))
	sym.Assert(len(b) == 0 && b.Build().Len() == 0, "nil and zero stakes are removed")
	sym.Reach("big-zero")
}
