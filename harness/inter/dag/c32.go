package dag

import (
	"bytes"

	"github.com/Fantom-foundation/lachesis-base/common/bigendian"
	"github.com/Fantom-foundation/lachesis-base/common/littleendian"
	"github.com/Fantom-foundation/lachesis-base/hash"
	"github.com/Fantom-foundation/lachesis-base/inter/idx"
	"github.com/Fantom-foundation/lachesis-base/zzverif/sym"
)

// VerifH_C32_endian: round trips and order preservation for every 16/32/64-bit value.
func VerifH_C32_endian() {
	a64, b64 := sym.U64("a64"), sym.U64("b64")
	a32, b32 := sym.U32("a32"), sym.U32("b32")
	a16, b16 := sym.U16("a16"), sym.U16("b16")

	sym.Assert(bigendian.BytesToUint64(bigendian.Uint64ToBytes(a64)) == a64, "BE64 round trip")
	sym.Assert(bigendian.BytesToUint32(bigendian.Uint32ToBytes(a32)) == a32, "BE32 round trip")
	sym.Assert(bigendian.BytesToUint16(bigendian.Uint16ToBytes(a16)) == a16, "BE16 round trip")
	sym.Assert(littleendian.BytesToUint64(littleendian.Uint64ToBytes(a64)) == a64, "LE64 round trip")
	sym.Assert(littleendian.BytesToUint32(littleendian.Uint32ToBytes(a32)) == a32, "LE32 round trip")
	sym.Assert(littleendian.BytesToUint16(littleendian.Uint16ToBytes(a16)) == a16, "LE16 round trip")

	sym.Assert(len(bigendian.Uint64ToBytes(a64)) == 8 && len(bigendian.Uint32ToBytes(a32)) == 4 && len(bigendian.Uint16ToBytes(a16)) == 2, "BE widths")
	sym.Assert(len(littleendian.Uint64ToBytes(a64)) == 8 && len(littleendian.Uint32ToBytes(a32)) == 4 && len(littleendian.Uint16ToBytes(a16)) == 2, "LE widths")

	c64 := bytes.Compare(bigendian.Uint64ToBytes(a64), bigendian.Uint64ToBytes(b64))
	sym.Assert(sym.Iff(a64 < b64, c64 < 0), "BE64 order: a<b iff bytes less")
	sym.Assert(sym.Iff(a64 == b64, c64 == 0), "BE64 order: a==b iff bytes equal")
	c32 := bytes.Compare(bigendian.Uint32ToBytes(a32), bigendian.Uint32ToBytes(b32))
	sym.Assert(sym.Iff(a32 < b32, c32 < 0), "BE32 order: a<b iff bytes less")
	sym.Assert(sym.Iff(a32 == b32, c32 == 0), "BE32 order: a==b iff bytes equal")
	c16 := bytes.Compare(bigendian.Uint16ToBytes(a16), bigendian.Uint16ToBytes(b16))
	sym.Assert(sym.Iff(a16 < b16, c16 < 0), "BE16 order: a<b iff bytes less")
	sym.Assert(sym.Iff(a16 == b16, c16 == 0), "BE16 order: a==b iff bytes equal")

	// little-endian encodings differ byte-wise from big-endian unless palindromic: least significant byte first
	le := littleendian.Uint32ToBytes(a32)
	sym.Assert(le[0] == byte(a32) && le[3] == byte(a32>>24), "LE32 byte placement")
	be := bigendian.Uint32ToBytes(a32)
	sym.Assert(be[3] == byte(a32) && be[0] == byte(a32>>24), "BE32 byte placement")
	sym.Observe("be64", bigendian.Uint64ToBytes(a64))
	sym.Observe("le16", littleendian.Uint16ToBytes(a16))
	sym.Reach("endian")
}

// VerifH_C32_idx: every index type round-trips and orders byte-wise like its values.
func VerifH_C32_idx() {
	a, b := sym.U32("a"), sym.U32("b")
	a64, b64 := sym.U64("a64"), sym.U64("b64")
	sym.Assert(idx.BytesToEpoch(idx.Epoch(a).Bytes()) == idx.Epoch(a), "Epoch round trip")
	sym.Assert(idx.BytesToEvent(idx.Event(a).Bytes()) == idx.Event(a), "Event round trip")
	sym.Assert(idx.BytesToLamport(idx.Lamport(a).Bytes()) == idx.Lamport(a), "Lamport round trip")
	sym.Assert(idx.BytesToFrame(idx.Frame(a).Bytes()) == idx.Frame(a), "Frame round trip")
	sym.Assert(idx.BytesToPack(idx.Pack(a).Bytes()) == idx.Pack(a), "Pack round trip")
	sym.Assert(idx.BytesToValidatorID(idx.ValidatorID(a).Bytes()) == idx.ValidatorID(a), "ValidatorID round trip")
	sym.Assert(idx.BytesToBlock(idx.Block(a64).Bytes()) == idx.Block(a64), "Block round trip")
	lt := a < b
	sym.Assert(sym.Iff(lt, bytes.Compare(idx.Epoch(a).Bytes(), idx.Epoch(b).Bytes()) < 0), "Epoch order")
	sym.Assert(sym.Iff(lt, bytes.Compare(idx.Event(a).Bytes(), idx.Event(b).Bytes()) < 0), "Event order")
	sym.Assert(sym.Iff(lt, bytes.Compare(idx.Lamport(a).Bytes(), idx.Lamport(b).Bytes()) < 0), "Lamport order")
	sym.Assert(sym.Iff(lt, bytes.Compare(idx.Frame(a).Bytes(), idx.Frame(b).Bytes()) < 0), "Frame order")
	sym.Assert(sym.Iff(lt, bytes.Compare(idx.Pack(a).Bytes(), idx.Pack(b).Bytes()) < 0), "Pack order")
	sym.Assert(sym.Iff(lt, bytes.Compare(idx.ValidatorID(a).Bytes(), idx.ValidatorID(b).Bytes()) < 0), "ValidatorID order")
	sym.Assert(sym.Iff(a64 < b64, bytes.Compare(idx.Block(a64).Bytes(), idx.Block(b64).Bytes()) < 0), "Block order")
	sym.Assert(idx.MaxLamport(idx.Lamport(a), idx.Lamport(b)) == idx.Lamport(sym.Ite(a > b, uint64(a), uint64(b))), "MaxLamport")
	sym.Reach("idx")
}

func verifTail(prefix string) (r [24]byte) {
	names := [...]string{"0", "1", "2", "3", "4", "5", "6", "7", "8", "9", "10", "11", "12", "13", "14", "15", "16", "17", "18", "19", "20", "21", "22", "23"}
	for i := range r {
		r[i] = sym.U8(prefix + names[i])
	}
	return
}

// VerifH_C32_eventID: IDs built by Build and by SetID carry epoch and Lamport, keep the
// 24-byte tail, and byte-wise ID order is (epoch, Lamport, tail) lexicographic.
func VerifH_C32_eventID() {
	e1, l1 := sym.U32("e1"), sym.U32("l1")
	e2, l2 := sym.U32("e2"), sym.U32("l2")
	t1, t2 := verifTail("t1_"), verifTail("t2_")

	// arbitrary pre-state: the mutable event may already carry any ID (e.g. a temporary one set with
	// SetID under an earlier epoch / Lamport time, as abft's Build does)
	m1 := &MutableBaseEvent{}
	t0 := verifTail("t0_")
	if sym.Bool("hadID") {
		m1.SetEpoch(idx.Epoch(sym.U32("e0")))
		m1.SetLamport(idx.Lamport(sym.U32("l0")))
		m1.SetID(t0)
		sym.Reach("rebuilt-after-SetID")
	}
	m1.SetEpoch(idx.Epoch(e1))
	m1.SetLamport(idx.Lamport(l1))
	id1 := m1.Build(t1).ID()

	m2 := &MutableBaseEvent{}
	m2.SetEpoch(idx.Epoch(e2))
	m2.SetLamport(idx.Lamport(l2))
	m2.SetID(t2)
	id2 := m2.ID()

	sym.Assert(id1.Epoch() == idx.Epoch(e1) && id1.Lamport() == idx.Lamport(l1), "Build: ID carries epoch and Lamport")
	sym.Assert(id2.Epoch() == idx.Epoch(e2) && id2.Lamport() == idx.Lamport(l2), "SetID: ID carries epoch and Lamport")
	sym.Assert(bytes.Equal(id1[8:], t1[:]) && bytes.Equal(id2[8:], t2[:]), "ID keeps the 24-byte tail")

	c := bytes.Compare(id1.Bytes(), id2.Bytes())
	ct := bytes.Compare(t1[:], t2[:])
	less := sym.Or(e1 < e2, sym.And(e1 == e2, sym.Or(l1 < l2, sym.And(l1 == l2, ct < 0))))
	sym.Assert(sym.Iff(c < 0, less), "ID byte order is (epoch, Lamport, tail) lexicographic")
	sym.Assert(sym.Implies(sym.Or(e1 < e2, sym.And(e1 == e2, l1 < l2)), c < 0), "earlier (epoch, Lamport) sorts first")
	// the sortable ID list of package hash orders the same way
	oe := hash.OrderedEvents{id1, id2}
	sym.Assert(sym.Iff(oe.Less(0, 1), less), "OrderedEvents.Less orders by epoch, then Lamport time, then the rest of the ID")
	sym.Assert(sym.Iff(oe.Less(1, 0), sym.And(sym.Not(less), c != 0)), "OrderedEvents.Less is the strict order of the IDs")
	oe.ByEpochAndLamport()
	sym.Assert(bytes.Compare(oe[0].Bytes(), oe[1].Bytes()) <= 0, "ByEpochAndLamport sorts the IDs ascending")
	sym.Observe("id1", id1[:])
	sym.Reach("eventID")
}
