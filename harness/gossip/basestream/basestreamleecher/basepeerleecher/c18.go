package basepeerleecher

import (
	"sync"

	"github.com/Fantom-foundation/lachesis-base/zzverif/sym"
)

// VerifH_C18_step: one step of routine() from an arbitrary state satisfying the flow-control
// invariant requested - processed <= ParallelChunksDownload.
func VerifH_C18_step() {
	sym.IntMode(true)
	par := sym.Int("par")
	sym.Assume(par >= 1 && par <= 1<<20)
	R, P := sym.Int("requested"), sym.Int("processed")
	sym.Assume(P >= 0 && P <= 1<<40 && R >= P && R-P <= par)
	k := sym.Choice("chunks", 4) // chunks waiting to be processed
	processedNow := 0
	var requests []uint32
	suspended, done := sym.Bool("suspend"), sym.Bool("done")
	isProc := [...]bool{sym.Bool("proc0"), sym.Bool("proc1"), sym.Bool("proc2")}
	d := New(new(sync.WaitGroup), EpochDownloaderConfig{ParallelChunksDownload: sym.ConcreteInt(sym.IteI(par <= 4, par, 4)), DefaultChunkItemsNum: 7, DefaultChunkItemsSize: 9},
		EpochDownloaderCallbacks{
			IsProcessed: func(id interface{}) bool {
				if isProc[id.(int)] {
					processedNow++
					return true
				}
				return false
			},
			RequestChunks: func(maxNum uint32, maxSize uint64, maxChunks uint32) error {
				sym.Assert(maxNum == 7 && maxSize == 9, "requests carry the configured chunk limits")
				requests = append(requests, maxChunks)
				return nil
			},
			Suspend: func() bool { return suspended },
			Done:    func() bool { return done },
		})
	d.cfg.ParallelChunksDownload = par // the symbolic limit (the constructor only sizes buffers with it)
	d.totalRequested, d.totalProcessed = R, P
	for i := 0; i < k; i++ {
		d.processingChunks = append(d.processingChunks, receivedChunk{id: i})
	}
	// outstanding chunks cannot exceed what was requested and not yet processed
	sym.Assume(k <= R-P)

	d.routine()

	if done {
		sym.Assert(d.Stopped() && len(requests) == 0, "once the download is reported done the leecher stops and requests nothing")
		sym.Reach("done")
		return
	}
	sym.Assert(!d.Stopped(), "the leecher keeps running while the download is not done")
	sym.Assert(d.totalProcessed == P+processedNow, "processed chunks are counted once")
	sym.Assert(len(d.processingChunks) == k-processedNow, "processed chunks leave the waiting list")
	var sum int
	for _, r := range requests {
		sum += int(r)
	}
	sym.Assert(d.totalRequested == R+sum, "every requested chunk is accounted")
	sym.Assert(d.totalRequested-d.totalProcessed <= par, "never more requested-but-unprocessed chunks than the parallelism limit")
	if suspended {
		sym.Assert(len(requests) == 0, "no request while suspended")
		sym.Reach("suspended")
	} else {
		sym.Assert(d.totalRequested-d.totalProcessed == par, "when not suspended the window is filled up to the limit")
		sym.Reach("requested")
	}
}
