package basestreamleecher

import (
	"time"

	"github.com/Fantom-foundation/lachesis-base/zzverif/sym"
)

var (
	vOps  = [...]string{"op0", "op1", "op2", "op3", "op4", "op5"}
	vPeer = [...]string{"peer0", "peer1", "peer2", "peer3", "peer4", "peer5"}
	vTerm = [...]string{"term0", "term1", "term2", "term3", "term4", "term5"}
	vCand = [...]string{"cand0", "cand1", "cand2", "cand3", "cand4", "cand5", "cand6", "cand7", "cand8", "cand9", "cand10", "cand11"}
	vPick = [...]string{"pick0", "pick1", "pick2", "pick3", "pick4", "pick5", "pick6", "pick7", "pick8", "pick9", "pick10", "pick11"}
)

// verifC18Base: arbitrary sequences of RegisterPeer/UnregisterPeer/Routine(tick)/Terminate over two
// peers; the session callbacks are a harness model (the application picks any non-empty subset of
// the registered peers as candidates, and any of them for the session).
func verifC18Base(nOps int) {
	peers := [...]string{"a", "b"}
	session := "" // peer of the running session ("" = none)
	removed := map[string]bool{}
	terminated := false
	nSel := 0
	var d *BaseLeecher
	d = New(time.Second, Callbacks{
		SelectSessionPeerCandidates: func() []string {
			var res []string
			for _, p := range peers {
				if _, ok := d.Peers[p]; ok && nSel < len(vCand) && sym.Bool(vCand[nSel]) {
					res = append(res, p)
				}
				nSel++
			}
			return res
		},
		ShouldTerminateSession: func() bool { return sym.Bool(vTerm[nSel%len(vTerm)]) },
		StartSession: func(candidates []string) {
			sym.Assert(session == "", "at most one session at a time")
			sym.Assert(!terminated, "no session starts after termination")
			p := candidates[sym.Choice(vPick[nSel%len(vPick)], len(candidates))]
			nSel++
			if !sym.Known("C18-unregister-restarts-session") {
				sym.Assert(!removed[p], "no session is started with a peer after it was unregistered")
			}
			session = p
		},
		TerminateSession:   func() { session = "" },
		OngoingSession:     func() bool { return session != "" },
		OngoingSessionPeer: func() string { return session },
	})
	for i := 0; i < nOps; i++ {
		switch sym.Choice(vOps[i], 4) {
		case 0:
			p := peers[sym.Choice(vPeer[i], 2)]
			sym.Assert(d.RegisterPeer(p) == nil, "RegisterPeer")
			if !terminated {
				removed[p] = false
			}
		case 1:
			p := peers[sym.Choice(vPeer[i], 2)]
			removed[p] = true // from the moment UnregisterPeer is called
			sym.Assert(d.UnregisterPeer(p) == nil, "UnregisterPeer")
			if !sym.Known("C18-unregister-restarts-session") {
				sym.Assert(session != p, "no session with a peer is running after it was unregistered")
			}
			sym.Reach("unregister")
		case 2:
			d.Mu.Lock()
			d.Routine() // what the ticker does
			d.Mu.Unlock()
		case 3:
			if !terminated {
				d.Terminate()
				terminated = true
				sym.Assert(session == "", "termination ends the running session")
				sym.Reach("terminate")
			}
		}
		if session != "" {
			sym.Reach("session")
		}
	}
	sym.Reach("c18")
}

func VerifH_C18_base4() { verifC18Base(4) }
func VerifH_C18_base5() { verifC18Base(5) }
