package basestreamseeder

import (
	"sync"
	"sync/atomic"
	"time"

	"github.com/Fantom-foundation/lachesis-base/gossip/basestream"
	"github.com/Fantom-foundation/lachesis-base/zzverif/sym"
)

// integer locators and payloads of items with individual sizes
type vLoc int

func (l vLoc) Compare(b basestream.Locator) int {
	o := b.(vLoc)
	if l < o {
		return -1
	}
	if l > o {
		return 1
	}
	return 0
}
func (l vLoc) Inc() basestream.Locator { return l + 1 }

type vPayload struct {
	keys []int
	size uint64
}

func (p vPayload) Len() int          { return len(p.keys) }
func (p vPayload) TotalSize() uint64 { return p.size }
func (p vPayload) TotalMemSize() int { return int(p.size) + 8*len(p.keys) }

type vSent struct {
	sid  uint32
	done bool
	keys []int
	size uint64
}

type vSess struct {
	sid  uint32
	next int
	done bool
}

const vItems = 4 // items 0..3; every session asks for [0, 4)

var (
	vnSid   = [...]string{"sid0", "sid1", "sid2", "sid3", "sid4", "sid5"}
	vnChunk = [...]string{"chunks0", "chunks1", "chunks2", "chunks3", "chunks4", "chunks5"}
	vnNum   = [...]string{"num0", "num1", "num2", "num3", "num4", "num5"}
	vnSize  = [...]string{"size0", "size1", "size2", "size3", "size4", "size5"}
	vnItem  = [...]string{"item0", "item1", "item2", "item3"}
)

// verifC17: nReq requests of one peer with symbolic session IDs (1..4), chunk counts, item-count and
// size limits and symbolic item sizes; an unregistration after request number unregAfter.  The responses
// must equal those of a reference seeder written from the statement.
func verifC17(nReq int, unregAfter int, fixed int, symLimits int) {
	verifC17t(nReq, unregAfter, fixed, symLimits, 1)
}

// threads == 2: two sender workers.  The reader handles all requests first; the two senders then run in a
// symbolic order (natively: the first response is written slowly, so that a response queued on the other
// worker overtakes it).  Responses are then compared per session.
func verifC17t(nReq int, unregAfter int, fixed int, symLimits int, threads int) {
	sizes := make([]uint64, vItems)
	for i := range sizes {
		sizes[i] = uint64(sym.U8(vnItem[i]))
	}
	var sent []vSent
	var mu sync.Mutex
	slowDone := false
	cfg := Config{SenderThreads: threads, MaxSenderTasks: 64, MaxPendingResponsesSize: 1 << 40,
		MaxResponsePayloadNum: 3, MaxResponsePayloadSize: 1 << 30, MaxResponseChunks: 2}
	s := New(cfg, Callbacks{
		ForEachItem: func(start basestream.Locator, _ basestream.RequestType, onKey func(basestream.Locator) bool, onAppended func(basestream.Payload) bool) basestream.Payload {
			var p vPayload
			for k := int(start.(vLoc)); k < vItems+2; k++ {
				if !onKey(vLoc(k)) {
					break
				}
				p.keys = append(p.keys, k)
				if k < vItems {
					p.size += sizes[k]
				}
				if !onAppended(p) {
					break
				}
			}
			return p
		},
	})
	peer := Peer{ID: "p", SendChunk: func(r basestream.Response) error {
		p := r.Payload.(vPayload)
		if threads > 1 && !sym.Symbolic() {
			mu.Lock()
			slow := !slowDone
			slowDone = true
			mu.Unlock()
			if slow {
				time.Sleep(150 * time.Millisecond) // the first response is written slowly
			}
			mu.Lock()
			defer mu.Unlock()
		}
		sent = append(sent, vSent{r.SessionID, r.Done, append([]int{}, p.keys...), p.size})
		return nil
	}, Misbehaviour: func(error) { sym.Assert(false, "an honest peer is not reported as misbehaving") }}

	// sequentialised execution: reader loop until it blocks, then the (single) sender until it blocks
	pump := func() {
		if sym.Symbolic() {
			sym.RunUntilBlocked(func() { s.readerLoop() })
			if threads == 1 {
				s.senders[0].Start(1)
				sym.RunGo(sym.NumGo() - 1)
			}
		} else {
			time.Sleep(60 * time.Millisecond)
		}
	}
	if !sym.Symbolic() {
		s.Start()
	}

	// reference seeder
	var held []vSess
	var want []vSent
	serve := func(sid uint32, chunks, maxNum uint32, maxSize uint64) {
		idx := -1
		for i := range held {
			if held[i].sid == sid {
				idx = i
			}
		}
		if idx < 0 {
			if len(held) >= 3 {
				held = held[1:] // a NEW session while three are held: the oldest is forgotten
			}
			held = append(held, vSess{sid: sid})
			idx = len(held) - 1
		}
		st := &held[idx]
		for c := uint32(0); c < chunks && !st.done; c++ {
			var w vSent
			w.sid = sid
			all := true
			for st.next < vItems {
				w.keys = append(w.keys, st.next)
				w.size += sizes[st.next]
				st.next++
				if uint32(len(w.keys)) >= maxNum || w.size >= maxSize {
					all = false
					break
				}
			}
			st.done = all
			w.done = all
			want = append(want, w)
		}
	}

	for i := 0; i < nReq; i++ {
		sid := uint32(i + 1) // the first `fixed` requests open the sessions 1, 2, ...
		if i >= fixed {
			sid = uint32(1 + sym.Choice(vnSid[i], 4))
		}
		// the limits of the last symLimits requests are symbolic, the earlier ones ask for one item per chunk
		chunks, maxNum, maxSize := uint32(1), uint32(1), uint64(1<<20)
		if i >= nReq-symLimits {
			chunks = uint32(1 + sym.Choice(vnChunk[i], 2))
			maxNum = uint32(1 + sym.Choice(vnNum[i], 3))
			maxSize = uint64(sym.U16(vnSize[i]))
			sym.Assume(maxSize >= 1)
		}
		err, perr := s.NotifyRequestReceived(peer, basestream.Request{
			Session: basestream.Session{ID: sid, Start: vLoc(0), Stop: vLoc(vItems)}, MaxChunks: chunks, MaxPayloadNum: maxNum, MaxPayloadSize: maxSize})
		sym.Assert(err == nil && perr == nil, "request accepted")
		pump()
		serve(sid, chunks, maxNum, maxSize)
		if i == unregAfter {
			sym.Assert(s.UnregisterPeer("p") == nil, "UnregisterPeer")
			pump()
			held = nil // every session of the peer is forgotten
			sym.Reach("unregistered")
		}
	}
	if threads > 1 && sym.Symbolic() {
		first := sym.Choice("firstSender", 2)
		s.senders[first].Start(1)
		sym.RunGo(sym.NumGo() - 1)
		s.senders[1-first].Start(1)
		sym.RunGo(sym.NumGo() - 1)
	}
	if !sym.Symbolic() {
		if threads > 1 {
			time.Sleep(300 * time.Millisecond)
		}
		s.Stop()
	}
	if threads > 1 {
		// per session: the same responses in the same order
		for sid := uint32(1); sid <= 4; sid++ {
			var a, b []vSent
			for _, x := range sent {
				if x.sid == sid {
					a = append(a, x)
				}
			}
			for _, x := range want {
				if x.sid == sid {
					b = append(b, x)
				}
			}
			sym.Assert(len(a) == len(b), "as many responses as the reference seeder sends")
			for i := range b {
				if i >= len(a) {
					break
				}
				ok := a[i].done == b[i].done && len(a[i].keys) == len(b[i].keys)
				if ok {
					for j := range a[i].keys {
						ok = ok && a[i].keys[j] == b[i].keys[j]
					}
				}
				sym.Assert(ok, "every response carries the next items of its session in order, without gaps or repeats, and is marked done exactly at the end")
			}
		}
		sym.Reach("c17")
		return
	}
	sym.Assert(len(sent) == len(want), "as many responses as the reference seeder sends")
	if len(sent) != len(want) {
		return
	}
	for i := range want {
		a, b := sent[i], want[i]
		ok := a.sid == b.sid && a.done == b.done && len(a.keys) == len(b.keys)
		if ok {
			for j := range a.keys {
				ok = ok && a.keys[j] == b.keys[j]
			}
		}
		sym.Assert(ok, "every response carries the next items of its session in order, without gaps or repeats, and is marked done exactly at the end")
	}
	if len(held) == 3 {
		sym.Reach("three-held")
	}
	sym.Reach("c17")
}

func VerifH_C17_req3()   { verifC17(3, -1, 0, 2) }
func VerifH_C17_req4()   { verifC17(4, -1, 0, 2) }
func VerifH_C17_unreg4() { verifC17(4, 2, 0, 2) }

// three held sessions 1, 2, 3, then the peer is unregistered, then three more requests with symbolic session IDs:
// nothing of the forgotten sessions (neither their progress nor their slots in the peer's quota) may survive
func VerifH_C17_unreg6() { verifC17(6, 2, 3, 1) }

// two sender threads, three requests with symbolic session IDs (a resumed session may be interleaved with a new one)
func VerifH_C17_threads2()   { verifC17t(3, -1, 0, 1, 2) }
func VerifH_C17_unreg6full() { verifC17(6, 2, 3, 2) }

// VerifH_C17_pending: the pending-response memory bound.  One request for 2-3 chunks (one item per chunk, symbolic
// item sizes) with a small symbolic memory limit; the sender worker is stalled and runs only when the reader
// sleeps waiting for room (time.Sleep yields to the environment).  Whenever the harness gets control, the memory
// of the queued responses is at most the limit plus one response.
func VerifH_C17_pending() {
	sizes := make([]uint64, vItems)
	for i := range sizes {
		sizes[i] = uint64(sym.U8(vnItem[i]))
	}
	limit := uint64(sym.U16("pendingLimit"))
	sym.Assume(limit >= 1 && limit <= 2000)
	var sentMem []uint64
	cfg := Config{SenderThreads: 1, MaxSenderTasks: 64, MaxPendingResponsesSize: int64(limit),
		MaxResponsePayloadNum: 3, MaxResponsePayloadSize: 1 << 30, MaxResponseChunks: 4}
	s := New(cfg, Callbacks{
		ForEachItem: func(start basestream.Locator, _ basestream.RequestType, onKey func(basestream.Locator) bool, onAppended func(basestream.Payload) bool) basestream.Payload {
			var p vPayload
			for k := int(start.(vLoc)); k < vItems+2; k++ {
				if !onKey(vLoc(k)) {
					break
				}
				p.keys = append(p.keys, k)
				if k < vItems {
					p.size += sizes[k]
				}
				if !onAppended(p) {
					break
				}
			}
			return p
		},
	})
	var mu sync.Mutex
	release := make(chan struct{})
	peer := Peer{ID: "p", SendChunk: func(r basestream.Response) error {
		if !sym.Symbolic() {
			<-release // natively the peer is stalled until the harness has looked at the pending memory
		}
		mu.Lock()
		sentMem = append(sentMem, uint64(r.Payload.TotalMemSize()))
		mu.Unlock()
		return nil
	}, Misbehaviour: func(error) {}}
	var peak int64
	look := func() {
		if p := atomic.LoadInt64(&s.pendingResponsesSize); p > peak {
			peak = p
		}
	}
	chunks := uint32(2 + sym.Choice("chunks", 2))
	if sym.Symbolic() {
		inEnv := false
		sym.OnYield(func(tag string) bool {
			if tag != "sleep" || inEnv {
				return false // a worker with nothing to do just parks
			}
			inEnv = true
			look()
			s.senders[0].Start(1) // the stalled sender gets to send what is queued
			sym.RunGo(sym.NumGo() - 1)
			inEnv = false
			return true
		})
	} else {
		s.Start()
	}
	err, perr := s.NotifyRequestReceived(peer, basestream.Request{
		Session: basestream.Session{ID: 1, Start: vLoc(0), Stop: vLoc(vItems)}, MaxChunks: chunks, MaxPayloadNum: 1, MaxPayloadSize: 1 << 20})
	sym.Assert(err == nil && perr == nil, "request accepted")
	if sym.Symbolic() {
		sym.RunUntilBlocked(func() { s.readerLoop() })
		look()
		s.senders[0].Start(1)
		sym.RunGo(sym.NumGo() - 1)
	} else {
		time.Sleep(150 * time.Millisecond) // the reader has queued what it is willing to queue
		look()
		close(release)
		time.Sleep(150 * time.Millisecond)
		s.Stop()
	}
	var maxResp uint64
	for _, m := range sentMem {
		if m > maxResp {
			maxResp = m
		}
	}
	sym.Assert(uint32(len(sentMem)) == chunks, "every requested chunk is sent")
	sym.Assert(uint64(peak) <= limit+maxResp, "pending response memory never exceeds its limit by more than one response")
	sym.Reach("pending")
}
