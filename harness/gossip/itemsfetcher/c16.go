package itemsfetcher

import (
	"time"

	"github.com/Fantom-foundation/lachesis-base/zzverif/sym"
)

type vRequest struct {
	peer string
	ids  []string
}

var (
	vnPeer  = [...]string{"peer0", "peer1", "peer2"}
	vnItems = [...]string{"items0", "items1", "items2"}
)

const (
	vArrive = 20 * time.Millisecond
	vForget = 10 * time.Second
)

// verifC16: the fetcher's event loop runs ONCE (as in production); the environment acts whenever the loop
// blocks: it delivers nBatches announce batches from peers {p,q} over items {x,y} (the first one is
// already queued when the loop starts, so both orders "start-up timer first" and "announcement first"
// are explored), optionally a receipt of x, ends the suspension, and then lets time pass in steps of
// the arrive timeout (armed timers fire).  Suspend() is symbolic while the announcements arrive, each
// item is symbolically interesting or not.
func verifC16(nBatches int, steps int) {
	cfg := Config{ForgetTimeout: vForget, ArriveTimeout: vArrive, GatherSlack: 2 * time.Millisecond, HashLimit: 64, MaxBatch: 8, MaxParallelRequests: 1, MaxQueuedBatches: 8}
	suspended := sym.Bool("suspendedDuringAnnounce")
	interested := map[string]bool{"x": sym.Bool("interestedX"), "y": sym.Bool("interestedY")}
	everInterested := map[string]bool{}
	f := New(cfg, Callback{
		OnlyInterested: func(ids []interface{}) []interface{} {
			var res []interface{}
			for _, id := range ids {
				if interested[id.(string)] {
					everInterested[id.(string)] = true
					res = append(res, id)
				}
			}
			return res
		},
		Suspend: func() bool { return suspended },
	})
	var requests []vRequest
	announcedBy := map[string]map[string]bool{"p": {}, "q": {}}
	received := map[string]bool{}
	requestedAfterReceipt := false
	requester := func(peer string) ItemsRequesterFn {
		return func(ids []interface{}) error {
			r := vRequest{peer: peer}
			for _, id := range ids {
				s := id.(string)
				r.ids = append(r.ids, s)
				sym.Assert(announcedBy[peer][s], "an item is requested only from a peer that announced it")
				sym.Assert(everInterested[s], "an item is requested only after it was reported interesting")
				if received[s] {
					requestedAfterReceipt = true
				}
			}
			requests = append(requests, r)
			return nil
		}
	}
	now := int64(1_000_000_000_000)
	sym.SetNow(now)
	items := [...][]interface{}{{"x"}, {"y"}, {"x", "y"}}
	peers := [...]string{"p", "q"}
	announce := func(i int) {
		peer := peers[sym.Choice(vnPeer[i], 2)]
		ids := items[sym.Choice(vnItems[i], 3)]
		for _, id := range ids {
			announcedBy[peer][id.(string)] = true
			if received[id.(string)] {
				received[id.(string)] = false // announced anew
			}
		}
		sym.Assert(f.NotifyAnnounces(peer, ids, time.Unix(0, now), requester(peer)) == nil, "announce accepted")
	}
	withReceipt := sym.Choice("receipt", 2) == 1
	// the environment's script, one action per step
	step := 0
	inWorker := false
	runRequests := func() { // the request worker (one thread): runs the queued request tasks
		inWorker = true
		f.parallelTasks.Start(1)
		sym.RunGo(sym.NumGo() - 1)
		inWorker = false
	}
	act := func() bool {
		k := step
		step++
		switch {
		case k < nBatches-1:
			announce(k + 1)
		case k == nBatches-1:
			if withReceipt {
				sym.Assert(f.NotifyReceived([]interface{}{"x"}) == nil, "receipt accepted")
				received["x"] = true
				sym.Reach("receipt")
			}
		case k == nBatches:
			suspended = false // the suspension (if any) ends
		case k <= nBatches+steps:
			now += int64(vArrive) + int64(time.Millisecond)
			sym.SetNow(now)
			sym.FireTimers()
		default:
			return false // nothing will ever happen any more
		}
		return true
	}
	if sym.Symbolic() {
		announce(0)
		sym.OnYield(func(string) bool {
			if inWorker {
				return false
			}
			runRequests()
			return act()
		})
		sym.RunUntilBlocked(func() { f.loop() })
		runRequests()
	} else {
		// natively: the real goroutines; the start-up timer fires before the first announcement arrives
		f.Start()
		time.Sleep(vArrive / 2)
		announce(0)
		for act() {
			time.Sleep(vArrive / 2)
		}
		time.Sleep(3 * vArrive)
		f.Stop()
	}
	sym.Observe("requests", len(requests) > 0)
	sym.Assert(!requestedAfterReceipt || !withReceipt || announcedAgain(announcedBy), "an item reported received is not requested again unless announced anew")
	// liveness within the bounded wait: an announced item that stayed interesting and unreceived was requested
	if !sym.Known("C16-suspended-batch-never-fetched") {
		for _, id := range []string{"x", "y"} {
			if (announcedBy["p"][id] || announcedBy["q"][id]) && interested[id] && !received[id] {
				got := false
				for _, r := range requests {
					for _, x := range r.ids {
						got = got || x == id
					}
				}
				sym.Assert(got, "an announced item that stays interesting and unreceived is requested within a few arrive timeouts after the suspension ended")
			}
		}
	}
	if len(requests) > 0 {
		sym.Reach("requested")
	}
	sym.Reach("c16")
}

func announcedAgain(map[string]map[string]bool) bool { return false }

func VerifH_C16_one() { verifC16(1, 3) }
func VerifH_C16_two() { verifC16(2, 3) }
