package itemsfetcher

import (
	"time"

	"github.com/Fantom-foundation/lachesis-base/zzverif/sym"
)

type vRequest struct {
	peer string
	ids  []string
}

var (
	vnPeer  = [...]string{"peer0", "peer1", "peer2"}
	vnItems = [...]string{"items0", "items1", "items2"}
)

const (
	vArrive = 20 * time.Millisecond
	vForget = 10 * time.Second
)

// verifC16: the fetcher's event loop runs ONCE (as in production); the environment acts whenever the loop
// blocks: it delivers nBatches announce batches from peers {p,q} over items {x,y} (the first one is
// already queued when the loop starts, so both orders "start-up timer first" and "announcement first"
// are explored), optionally a receipt of x, ends the suspension, and then lets time pass in steps of
// the arrive timeout (armed timers fire).  Suspend() is symbolic while the announcements arrive, each
// item is symbolically interesting or not.
func verifC16(nBatches int, steps int) { verifC16x(nBatches, steps, false) }

// with changes: the interest in x and y changes (symbolically) after the first requests went out, a few timer
// rounds pass, it changes again, a second batch is announced, and time passes again.
func verifC16x(nBatches int, steps int, changes bool) {
	cfg := Config{ForgetTimeout: vForget, ArriveTimeout: vArrive, GatherSlack: 2 * time.Millisecond, HashLimit: 64, MaxBatch: 8, MaxParallelRequests: 1, MaxQueuedBatches: 8}
	suspended := sym.Bool("suspendedDuringAnnounce")
	if changes {
		suspended = false
		sym.RandExtremes(true)
	}
	interested := map[string]bool{"x": sym.Bool("interestedX"), "y": sym.Bool("interestedY")}
	everInterested := map[string]bool{}
	f := New(cfg, Callback{
		OnlyInterested: func(ids []interface{}) []interface{} {
			var res []interface{}
			for _, id := range ids {
				if interested[id.(string)] {
					everInterested[id.(string)] = true
					res = append(res, id)
				}
			}
			return res
		},
		Suspend: func() bool { return suspended },
	})
	var requests []vRequest
	ticksSinceLost := map[string]int{}
	pending := map[string]bool{} // announced while interesting, interesting ever since, not received
	since := map[string]int{}    // number of requests made before it became pending
	announcedBy := map[string]map[string]bool{"p": {}, "q": {}}
	received := map[string]bool{}
	requestedAfterReceipt := false
	requester := func(peer string) ItemsRequesterFn {
		return func(ids []interface{}) error {
			r := vRequest{peer: peer}
			for _, id := range ids {
				s := id.(string)
				r.ids = append(r.ids, s)
				sym.Assert(announcedBy[peer][s], "an item is requested only from a peer that announced it")
				sym.Assert(everInterested[s], "an item is requested only after it was reported interesting")
				if received[s] {
					requestedAfterReceipt = true
				}
				sym.Assert(interested[s] || ticksSinceLost[s] < 2, "an item that is no longer interesting is not requested any more after two timer rounds")
			}
			requests = append(requests, r)
			return nil
		}
	}
	now := int64(1_000_000_000_000)
	sym.SetNow(now)
	items := [...][]interface{}{{"x"}, {"y"}, {"x", "y"}}
	peers := [...]string{"p", "q"}
	announce := func(i int) {
		peer := peers[i%2] // with changes: batch 0 from p, batch 1 from q
		if !changes {
			peer = peers[sym.Choice(vnPeer[i], 2)]
		}
		ids := items[sym.Choice(vnItems[i], 3)]
		for _, id := range ids {
			announcedBy[peer][id.(string)] = true
			if received[id.(string)] {
				received[id.(string)] = false // announced anew
			}
			if interested[id.(string)] && !pending[id.(string)] {
				pending[id.(string)] = true
				since[id.(string)] = len(requests)
			}
		}
		at := time.Unix(0, now)
		if !sym.Symbolic() {
			at = time.Now() // natively the real clock runs
		}
		sym.Assert(f.NotifyAnnounces(peer, ids, at, requester(peer)) == nil, "announce accepted")
	}
	withReceipt := !changes && sym.Choice("receipt", 2) == 1
	// the environment's script, one action per step
	step := 0
	inWorker := false
	runRequests := func() { // the request worker (one thread): runs the queued request tasks
		inWorker = true
		f.parallelTasks.Start(1)
		sym.RunGo(sym.NumGo() - 1)
		inWorker = false
	}
	change := func(tag string) {
		for _, id := range []string{"x", "y"} {
			was := interested[id]
			interested[id] = sym.Bool("interested" + tag + id)
			if was && !interested[id] {
				ticksSinceLost[id] = 0
				pending[id] = false
				sym.Reach("interest-lost")
			}
		}
	}
	tick := func() {
		now += int64(vArrive) + int64(time.Millisecond)
		sym.SetNow(now)
		sym.FireTimers()
		for id := range ticksSinceLost {
			ticksSinceLost[id]++
		}
	}
	script := []string{}
	if changes {
		// first requests, interest changes, two timer rounds, interest changes again, a new batch, timer rounds
		script = []string{"tick", "change1", "tick", "tick", "change2", "announce", "tick", "tick"}
	}
	act := func() bool {
		k := step
		step++
		if changes {
			if k >= len(script) {
				return false
			}
			switch script[k] {
			case "tick":
				tick()
			case "change1":
				change("1")
			case "change2":
				change("2")
			case "announce":
				announce(1)
			}
			return true
		}
		switch {
		case k < nBatches-1:
			announce(k + 1)
		case k == nBatches-1:
			if withReceipt {
				sym.Assert(f.NotifyReceived([]interface{}{"x"}) == nil, "receipt accepted")
				received["x"] = true
				pending["x"] = false
				sym.Reach("receipt")
			}
		case k == nBatches:
			suspended = false // the suspension (if any) ends
		case k <= nBatches+steps:
			tick()
		default:
			return false // nothing will ever happen any more
		}
		return true
	}
	if sym.Symbolic() {
		announce(0)
		sym.OnYield(func(string) bool {
			if inWorker {
				return false
			}
			runRequests()
			return act()
		})
		sym.RunUntilBlocked(func() { f.loop() })
		runRequests()
	} else {
		// natively: the real goroutines; the start-up timer fires before the first announcement arrives
		f.Start()
		time.Sleep(vArrive / 2)
		announce(0)
		for act() {
			time.Sleep(vArrive / 2)
		}
		time.Sleep(3 * vArrive)
		f.Stop()
	}
	sym.Observe("requests", len(requests) > 0)
	sym.Assert(!requestedAfterReceipt || !withReceipt || announcedAgain(announcedBy), "an item reported received is not requested again unless announced anew")
	// liveness within the bounded wait: an announced item that stayed interesting and unreceived was requested
	if !sym.Known("C16-suspended-batch-never-fetched") {
		for _, id := range []string{"x", "y"} {
			if pending[id] {
				got := false
				for _, r := range requests[since[id]:] {
					for _, x := range r.ids {
						got = got || x == id
					}
				}
				sym.Assert(got, "an announced item that stays interesting and unreceived is requested within a few arrive timeouts after the suspension ended")
			}
		}
	}
	if len(requests) > 0 {
		sym.Reach("requested")
	}
	sym.Reach("c16")
}

func announcedAgain(map[string]map[string]bool) bool { return false }

func VerifH_C16_one()     { verifC16(1, 3) }
func VerifH_C16_two()     { verifC16(2, 3) }
func VerifH_C16_changes() { verifC16x(2, 3, true) }
