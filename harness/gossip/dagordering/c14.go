package dagordering

import (
	"errors"
	"time"

	"github.com/Fantom-foundation/lachesis-base/hash"
	"github.com/Fantom-foundation/lachesis-base/inter/dag"
	"github.com/Fantom-foundation/lachesis-base/inter/idx"
	"github.com/Fantom-foundation/lachesis-base/zzverif/sym"
)

// a pushed copy of an event (distinct object per push, symbolic size)
type vCopy struct {
	*dag.MutableBaseEvent
	node      int
	size      int
	processed int
	released  int
	relErr    error
	afterRel  bool // Process called after Released
}

func (c *vCopy) Size() int { return c.size }

// shapes: parents by node index
var vShapes = [][][]int{
	{{}, {0}, {1}},         // chain A <- B <- C
	{{}, {0}, {0}},         // fan-out
	{{}, {0}, {0, 1}},      // A <- C, {A,C} <- D
	{{}, {0}, {0}, {1, 2}}, // diamond
	{{}, {}, {0, 1}, {2}},  // two roots joined, then a child
}

var (
	vnSize = [...]string{"size0", "size1", "size2", "size3", "size4", "size5"}
	vnOrd  = [...]string{"ord0", "ord1", "ord2", "ord3"}
)

func verifC14(shape int, withFailure, withDup, tightLimits bool) {
	verifC14x(shape, withFailure, withDup, tightLimits, false)
}

// clearDuring: while a push is inside the buffer (in its k-th Check or Process callback, k symbolic) ANOTHER
// goroutine calls Clear().  In the engine the mutexes keep their lock state (sym.TrackMutexes): if Clear has to
// wait for the buffer's lock it is parked and completes right after the push returns; natively Clear runs in a
// real goroutine and the callback waits for it for at most 300 ms.
func verifC14x(shape int, withFailure, withDup, tightLimits, clearDuring bool) {
	sym.TrackMutexes(clearDuring)
	clearAt, callbacks, pendingClear := -1, 0, false
	if clearDuring {
		clearAt = sym.Choice("clearAt", 6)
	}
	sh := vShapes[shape]
	n := len(sh)
	ids := make([]hash.Event, n)
	mk := func(node int, slot int) *vCopy {
		e := &dag.MutableBaseEvent{}
		e.SetEpoch(1)
		e.SetSeq(idx.Event(node + 1))
		e.SetLamport(idx.Lamport(node + 1))
		var ps hash.Events
		for _, p := range sh[node] {
			ps = append(ps, ids[p])
		}
		e.SetParents(ps)
		e.SetID([24]byte{byte(node + 1)})
		ids[node] = e.ID()
		sz := int(sym.U16(vnSize[slot]))
		return &vCopy{MutableBaseEvent: e, node: node, size: sz}
	}
	// arrival order: a symbolic permutation
	var order []int
	rest := make([]int, n)
	for i := range rest {
		rest[i] = i
	}
	for i := 0; i < n; i++ {
		k := sym.Choice(vnOrd[i], len(rest))
		order = append(order, rest[k])
		rest = append(rest[:k:k], rest[k+1:]...)
	}
	for i := 0; i < n; i++ {
		mk(i, 5) // fix the IDs first (IDs do not depend on the sizes)
	}
	// failing callback at one event
	failNode, failCheck := -1, false
	if withFailure {
		failNode = sym.Choice("failNode", n)
		failCheck = sym.Choice("failKind", 2) == 0
	}
	errFail := errors.New("injected failure")

	// limits
	limit := dag.Metric{Num: idx.Event(n + 1), Size: 1 << 40}
	if tightLimits {
		limit = dag.Metric{Num: idx.Event(sym.Choice("limitNum", n+1)), Size: uint64(sym.U32("limitSize"))}
	}

	connected := map[hash.Event]dag.Event{}
	var copies []*vCopy
	find := func(e dag.Event) *vCopy {
		for _, c := range copies {
			if dag.Event(c) == e {
				return c
			}
		}
		panic("callback with an unknown event object")
	}
	var buf *EventsBuffer
	otherGoroutineClears := func() {
		if callbacks++; callbacks-1 != clearAt {
			return
		}
		sym.Reach("clear-during-push")
		if sym.Symbolic() {
			if sym.RunUntilBlocked(func() { buf.Clear() }) {
				pendingClear = true // parked on the buffer's lock until the push is over
				sym.Reach("clear-waited-for-the-lock")
			}
			return
		}
		done := make(chan struct{})
		go func() { buf.Clear(); close(done) }()
		select {
		case <-done:
		case <-time.After(300 * time.Millisecond):
		}
	}
	buf = New(limit, Callback{
		Process: func(e dag.Event) error {
			otherGoroutineClears()
			c := find(e)
			c.processed++
			if c.released > 0 {
				c.afterRel = true
			}
			for _, p := range e.Parents() {
				_, ok := connected[p]
				sym.Assert(ok, "an event is handed to processing only after all its parents are connected")
			}
			if c.node == failNode && !failCheck {
				return errFail
			}
			connected[e.ID()] = e
			return nil
		},
		Released: func(e dag.Event, peer string, err error) {
			c := find(e)
			c.released++
			c.relErr = err
		},
		Get: func(h hash.Event) dag.Event {
			return connected[h]
		},
		Exists: func(h hash.Event) bool {
			_, ok := connected[h]
			return ok
		},
		Check: func(e dag.Event, parents dag.Events) error {
			otherGoroutineClears()
			c := find(e)
			sym.Assert(len(parents) == len(e.Parents()), "Check receives every parent")
			if c.node == failNode && failCheck {
				return errFail
			}
			return nil
		},
	})
	push := func(node, slot int) {
		c := mk(node, slot)
		copies = append(copies, c)
		buf.PushEvent(c, "peer")
		if pendingClear {
			pendingClear = false
			buf.Clear() // the parked Clear gets the lock now
		}
		tot := buf.Total()
		sym.Assert(tot.Num <= limit.Num && tot.Size <= limit.Size, "the buffer holds no more events or bytes than its limits after every push")
	}
	dupAt, dupNode := -1, 0
	if withDup {
		dupAt = sym.Choice("dupAt", n)
		dupNode = sym.Choice("dupNode", n)
	}
	for i, node := range order {
		push(node, i)
		if i == dupAt {
			push(dupNode, 4)
		}
	}
	buf.Clear()
	allProcessed := true
	for _, c := range copies {
		sym.Assert(c.processed <= 1, "each pushed copy is handed to processing at most once")
		sym.Assert(!c.afterRel, "no copy is processed after it was reported released")
		sym.Assert(c.released == 1, "every pushed copy is reported released exactly once by the time the buffer is cleared")
	}
	for node := 0; node < n; node++ {
		if _, ok := connected[ids[node]]; !ok {
			allProcessed = false
		}
	}
	if !withFailure && !tightLimits && !clearDuring {
		sym.Assert(allProcessed, "with sufficient limits and no failures every event of the parents-closed set is processed")
		sym.Reach("all-processed")
	}
	sym.Assert(buf.Total().Num == 0 && buf.Total().Size == 0, "Clear empties the buffer")
	sym.Reach("c14")
}

func VerifH_C14_plain0()   { verifC14(0, false, true, false) }
func VerifH_C14_plain2()   { verifC14(2, false, true, false) }
func VerifH_C14_plain3()   { verifC14(3, false, false, false) }
func VerifH_C14_fail0()    { verifC14(0, true, false, false) }
func VerifH_C14_fail1()    { verifC14(1, true, false, false) }
func VerifH_C14_fail2()    { verifC14(2, true, false, false) }
func VerifH_C14_fail3()    { verifC14(3, true, false, false) }
func VerifH_C14_fail4()    { verifC14(4, true, false, false) }
func VerifH_C14_limits2()  { verifC14(2, false, false, true) }
func VerifH_C14_limits3()  { verifC14(3, false, false, true) }
func VerifH_C14_faildup2() { verifC14(2, true, true, false) }
func VerifH_C14_clear0()   { verifC14x(0, false, false, false, true) }
func VerifH_C14_clear3()   { verifC14x(3, false, false, false, true) }
