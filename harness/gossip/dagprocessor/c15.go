package dagprocessor

import (
	"errors"
	"time"

	"github.com/Fantom-foundation/lachesis-base/eventcheck"
	"github.com/Fantom-foundation/lachesis-base/hash"
	"github.com/Fantom-foundation/lachesis-base/inter/dag"
	"github.com/Fantom-foundation/lachesis-base/inter/idx"
	"github.com/Fantom-foundation/lachesis-base/utils/datasemaphore"
	"github.com/Fantom-foundation/lachesis-base/zzverif/sym"
)

type vEvt struct {
	e         *dag.MutableBaseEvent
	batch     int
	pos       int
	checked   func(error)
	checkErr  error
	processed int
	released  int
	relErr    error
}

var (
	vnLam  = [...]string{"lam0", "lam1", "lam2", "lam3", "lam4", "lam5"}
	vnErr  = [...]string{"cerr0", "cerr1", "cerr2", "cerr3", "cerr4", "cerr5"}
	vnPick = [...]string{"pick0", "pick1", "pick2", "pick3", "pick4", "pick5"}
)

// verifC15: two batches (the first ordered, 3 parentless events; the second unordered, a parent and its
// child) with symbolic Lamport times, symbolic check results delivered in a symbolic order, symbolic
// highest known Lamport time and a small buffer limit.
func verifC15(secondBatch bool) {
	capacity := dag.Metric{Num: 100, Size: 1 << 30}
	warned := 0
	sem := datasemaphore.New(capacity, func(dag.Metric, dag.Metric, dag.Metric) { warned++ })
	highest := idx.Lamport(sym.U32("highest"))
	limit := dag.Metric{Num: idx.Event(2 + sym.Choice("limitNum", 2)), Size: 1 << 20}
	connected := map[hash.Event]dag.Event{}
	var evs []*vEvt
	var processOrder []*vEvt
	find := func(e dag.Event) *vEvt {
		for _, x := range evs {
			if dag.Event(x.e) == e {
				return x
			}
		}
		panic("unknown event object")
	}
	procErr := errors.New("check failed")
	p := New(sem, Config{EventsBufferLimit: limit, EventsSemaphoreTimeout: time.Second, MaxTasks: 8}, Callback{
		Event: EventCallback{
			Process: func(e dag.Event) error {
				x := find(e)
				x.processed++
				sym.Assert(x.released == 0, "no event is processed after it was released")
				processOrder = append(processOrder, x)
				connected[e.ID()] = e
				return nil
			},
			Released: func(e dag.Event, peer string, err error) {
				x := find(e)
				x.released++
				x.relErr = err
			},
			Get:          func(h hash.Event) dag.Event { return connected[h] },
			Exists:       func(h hash.Event) bool { _, ok := connected[h]; return ok },
			CheckParents: func(e dag.Event, parents dag.Events) error { return nil },
			CheckParentless: func(e dag.Event, checked func(error)) {
				find(e).checked = checked // the check completes later, in an order chosen by the environment
			},
		},
		HighestLamport: func() idx.Lamport { return highest },
	})
	mk := func(i, batch, pos int, parents hash.Events) *vEvt {
		e := &dag.MutableBaseEvent{}
		e.SetEpoch(1)
		e.SetSeq(idx.Event(i + 1))
		e.SetLamport(idx.Lamport(sym.U32(vnLam[i])))
		e.SetParents(parents)
		e.SetID([24]byte{byte(i + 1)})
		x := &vEvt{e: e, batch: batch, pos: pos}
		if sym.Bool(vnErr[i]) {
			x.checkErr = procErr
		}
		evs = append(evs, x)
		return x
	}
	sym.SetNow(1_000_000_000_000)
	// sequentialised pipeline: the checker worker runs until it blocks, later the inserter worker.
	// Natively the real workers run in their goroutines and the harness just waits for them.
	if !sym.Symbolic() {
		p.Start()
	}
	runWorkers := func() {
		if sym.Symbolic() {
			p.checker.Start(1)
			sym.RunGo(sym.NumGo() - 1)
		} else {
			time.Sleep(60 * time.Millisecond)
		}
	}
	a0, a1, a2 := mk(0, 0, 0, nil), mk(1, 0, 1, nil), mk(2, 0, 2, nil)
	doneA := 0
	sym.Assert(p.Enqueue("peer", dag.Events{a0.e, a1.e, a2.e}, true, nil, func() { doneA++ }) == nil, "batch accepted")
	var b0, b1 *vEvt
	doneB := 0
	if secondBatch {
		b0 = mk(3, 1, 0, nil)
		b1 = mk(4, 1, 1, hash.Events{b0.e.ID()})
		sym.Assert(p.Enqueue("peer", dag.Events{b1.e, b0.e}, false, nil, func() { doneB++ }) == nil, "batch accepted")
	}
	held := sem.Processing()
	sym.Assert(held.Num == idx.Event(len(evs)) && held.Num <= capacity.Num && held.Size <= capacity.Size, "the semaphore holds the accepted events and never exceeds its capacity")
	runWorkers()
	// checks complete in a symbolic order
	pending := append([]*vEvt{}, evs...)
	for k := 0; len(pending) > 0; k++ {
		i := sym.Choice(vnPick[k], len(pending))
		x := pending[i]
		pending = append(pending[:i:i], pending[i+1:]...)
		sym.Assert(x.checked != nil, "every event of an accepted batch is checked")
		x.checked(x.checkErr)
	}
	if sym.Symbolic() {
		p.orderedInserter.Start(1)
		sym.RunGo(sym.NumGo() - 1)
	} else {
		time.Sleep(100 * time.Millisecond)
	}
	sym.Assert(doneA == 1 && (!secondBatch || doneB == 1), "every batch reports completion once")
	p.Stop()

	// ordered batch: its events reach processing in batch order
	last := -1
	for _, x := range processOrder {
		if x.batch == 0 {
			sym.Assert(x.pos > last, "events of an ordered batch reach the ordering buffer in batch order")
			last = x.pos
		}
	}
	tooFar := func(x *vEvt) bool {
		return uint64(x.e.Lamport()) > uint64(highest)+1+uint64(limit.Num)
	}
	for _, x := range evs {
		sym.Assert(x.released == 1, "every event of an accepted batch is released exactly once by the time the processor is stopped")
		sym.Assert(x.processed <= 1, "no event is processed twice")
		if x.checkErr != nil {
			sym.Assert(x.processed == 0 && x.relErr == procErr, "an event whose check failed is released with that error and never processed")
		} else if tooFar(x) {
			sym.Assert(x.processed == 0, "an event too far ahead of the highest known Lamport time is never processed")
			sym.Assert(x.relErr == eventcheck.ErrSpilledEvent, "an event too far ahead is released as spilled")
			sym.Reach("spilled")
		}
		if x.processed == 1 {
			sym.Reach("processed")
		}
	}
	end := sem.Processing()
	sym.Assert(end.Num == 0 && end.Size == 0 && warned == 0, "the semaphore returns to zero once all events are released, without over-release")
	sym.Reach("c15")
}

func VerifH_C15_ordered() { verifC15(false) }
func VerifH_C15_two()     { verifC15(true) }

// VerifH_C15_stop: Stop() while an accepted batch is still in flight.  One event (symbolically: with an unknown
// parent, so that it waits in the ordering buffer; symbolic Lamport time, check result, ordered flag).  In the
// engine the inserter worker has not run yet when Stop() is called and runs when Stop() waits for the workers
// (it symbolically sees quit or the task first); natively the inserter is held inside the HighestLamport
// callback until Stop() has been called.  If the batch was handled completely, its event must have been
// released exactly once by the time Stop() returns and the semaphore must be back to zero.
func VerifH_C15_stop() {
	// the capacity fits exactly ONE event
	capacity := dag.Metric{Num: 1, Size: 1 << 30}
	warned := 0
	sem := datasemaphore.New(capacity, func(dag.Metric, dag.Metric, dag.Metric) { warned++ })
	highest := idx.Lamport(sym.U32("highest"))
	limit := dag.Metric{Num: 2, Size: 1 << 20}
	released, processed, handled := 0, 0, 0
	var checked func(error)
	gate := make(chan struct{})
	inTask := make(chan struct{}, 1)
	p := New(sem, Config{EventsBufferLimit: limit, EventsSemaphoreTimeout: time.Second, MaxTasks: 8}, Callback{
		Event: EventCallback{
			Process:         func(e dag.Event) error { processed++; return nil },
			Released:        func(e dag.Event, peer string, err error) { released++ },
			Get:             func(h hash.Event) dag.Event { return nil },
			Exists:          func(h hash.Event) bool { return false },
			CheckParents:    func(e dag.Event, parents dag.Events) error { return nil },
			CheckParentless: func(e dag.Event, c func(error)) { checked = c },
		},
		HighestLamport: func() idx.Lamport {
			handled++
			if !sym.Symbolic() {
				inTask <- struct{}{}
				<-gate // held until Stop() is under way
			}
			return highest
		},
	})
	e := &dag.MutableBaseEvent{}
	e.SetEpoch(1)
	e.SetSeq(1)
	e.SetLamport(idx.Lamport(sym.U32("lam0")))
	if sym.Bool("unknownParent") {
		e.SetParents(hash.Events{hash.Event{9, 9, 9}})
	}
	e.SetID([24]byte{1})
	var checkErr error
	if sym.Bool("cerr0") {
		checkErr = errors.New("check failed")
	}
	sym.SetNow(1_000_000_000_000)
	if !sym.Symbolic() {
		p.Start()
	}
	done := 0
	sym.Assert(p.Enqueue("peer", dag.Events{e}, sym.Bool("ordered"), nil, func() { done++ }) == nil, "batch accepted")
	if sym.Symbolic() {
		p.checker.Start(1)
		sym.RunGo(sym.NumGo() - 1)
	} else {
		time.Sleep(60 * time.Millisecond)
	}
	sym.Assert(checked != nil, "every event of an accepted batch is checked")
	complete := sym.Bool("checkCompletes") // the check may also never report before the stop: the batch stays in flight
	if complete {
		checked(checkErr)
	} else {
		sym.Reach("check-never-completes")
	}
	if sym.Symbolic() {
		sym.YieldOnWaitGroup(true)
		ran := false
		sym.OnYield(func(tag string) bool {
			if tag == "wg" && !ran {
				ran = true
				p.orderedInserter.Start(1) // the inserter worker gets to run only now
				sym.RunGo(sym.NumGo() - 1)
			}
			return false
		})
		p.Stop()
	} else {
		if checkErr == nil && complete {
			<-inTask // the inserter is inside process()
		} else {
			time.Sleep(60 * time.Millisecond)
		}
		stopped := make(chan struct{})
		go func() { p.Stop(); close(stopped) }()
		time.Sleep(100 * time.Millisecond)
		close(gate)
		<-stopped
	}
	// a second batch offered after the stop: whatever is still held, the semaphore never goes above its capacity
	e2 := &dag.MutableBaseEvent{}
	e2.SetEpoch(1)
	e2.SetSeq(2)
	e2.SetLamport(1)
	e2.SetID([24]byte{2})
	_ = p.Enqueue("peer", dag.Events{e2}, false, nil, nil)
	heldAfter := sem.Processing()
	sym.Assert(heldAfter.Num <= capacity.Num && heldAfter.Size <= capacity.Size, "the semaphore holds the accepted events and never exceeds its capacity")
	finished := complete && (handled == 1 || (checkErr != nil && done == 1 && released == 1))
	if finished {
		sym.Assert(released == 1, "every event of a batch that was handled completely is released exactly once by the time the processor is stopped")
		end := sem.Processing()
		sym.Assert(end.Num == 0 && end.Size == 0 && warned == 0, "the semaphore returns to zero once all events are released, without over-release")
		sym.Reach("finished-in-flight")
	} else {
		sym.Reach("abandoned")
	}
	sym.Assert(processed <= 1 && released <= 1, "no event is processed or released twice")
	sym.Reach("c15stop")
}
