package sym

import "math/big"

// Z is an exact (unbounded) integer for harness specifications whose intermediate
// products exceed 64 bits.  Natively it wraps math/big; under the engine the Z*
// functions build SMT Int terms (no wrap-around).
type Z struct{ v *big.Int }

func ZU(x uint64) Z  { return Z{new(big.Int).SetUint64(x)} }
func ZI(x int64) Z   { return Z{big.NewInt(x)} }
func ZAdd(a, b Z) Z  { return Z{new(big.Int).Add(a.v, b.v)} }
func ZSub(a, b Z) Z  { return Z{new(big.Int).Sub(a.v, b.v)} }
func ZMul(a, b Z) Z  { return Z{new(big.Int).Mul(a.v, b.v)} }
func ZLe(a, b Z) bool { return a.v.Cmp(b.v) <= 0 }
func ZLt(a, b Z) bool { return a.v.Cmp(b.v) < 0 }
func ZEq(a, b Z) bool { return a.v.Cmp(b.v) == 0 }
