// Package sym is the nondeterminism API used by the verification harnesses.
//
// Under the symbolic engine (/verif/engine) every function of this package is
// intercepted by name: inputs become SMT variables, Assert becomes a solver
// query, Assume extends the path condition.  Compiled natively (go test with
// an overlay) the same functions read a concrete assignment produced by the
// solver, so that a counterexample or a sampled witness is replayed against
// the real build.
package sym

import (
	"time"
	"encoding/json"
	"fmt"
	"os"
	"sort"
	"strings"
)

type Case struct {
	Harness string            `json:"harness"`
	Inputs  map[string]uint64 `json:"inputs"`
	Known   []string          `json:"known"`
}

type Outcome struct {
	Harness      string      `json:"harness"`
	Failures     []string    `json:"failures"`
	Panic        string      `json:"panic"`
	AssumeFailed bool        `json:"assume_failed"`
	Observations [][2]string `json:"observations"`
	Reached      []string    `json:"reached"`
}

var (
	cur     *Case
	out     *Outcome
	reached map[string]bool
)

type assumeFailed struct{}

func get(name string) uint64 {
	if cur == nil {
		panic("sym: no replay case loaded")
	}
	return cur.Inputs[name]
}

func Bool(name string) bool  { return get(name) != 0 }
func U8(name string) uint8   { return uint8(get(name)) }
func U16(name string) uint16 { return uint16(get(name)) }
func U32(name string) uint32 { return uint32(get(name)) }
func U64(name string) uint64 { return get(name) }
func I8(name string) int8    { return int8(get(name)) }
func I16(name string) int16  { return int16(get(name)) }
func I32(name string) int32  { return int32(get(name)) }
func I64(name string) int64  { return int64(get(name)) }
func Int(name string) int    { return int(get(name)) }

// Symbolic reports whether the code runs under the symbolic engine.
func Symbolic() bool { return false }

// Choice returns a value in [0,n); the engine explores every one.
func Choice(name string, n int) int {
	if n <= 1 {
		return 0
	}
	v := int(get(name))
	if v < 0 || v >= n {
		panic(assumeFailed{})
	}
	return v
}

// Concrete forces a symbolic value to a concrete one (the engine forks over its values).
func Concrete(x uint64) uint64 { return x }
func ConcreteInt(x int) int    { return x }

func Assume(c bool) {
	if !c {
		panic(assumeFailed{})
	}
}

func Assert(c bool, label string) {
	if !c {
		out.Failures = append(out.Failures, label)
	}
}

func Reach(label string) { reached[label] = true }

// Known reports whether finding id is listed as an open known finding.
func Known(id string) bool {
	for _, k := range cur.Known {
		if k == id {
			return true
		}
	}
	return false
}

func Observe(name string, v interface{}) {
	out.Observations = append(out.Observations, [2]string{name, format(v)})
}

func format(v interface{}) string {
	switch x := v.(type) {
	case nil:
		return "nil"
	case bool, int, int8, int16, int32, int64, uint, uint8, uint16, uint32, uint64, uintptr:
		return fmt.Sprint(x)
	case string:
		return fmt.Sprintf("%x", x)
	case []byte:
		return fmt.Sprintf("%x", x)
	}
	return formatReflect(v)
}

// branch-free helpers (the engine builds terms instead of forking)
func Ite(c bool, a, b uint64) uint64 {
	if c {
		return a
	}
	return b
}
func IteI(c bool, a, b int) int {
	if c {
		return a
	}
	return b
}
func IteB(c bool, a, b bool) bool {
	if c {
		return a
	}
	return b
}
func And(a, b bool) bool     { return a && b }
func Or(a, b bool) bool      { return a || b }
func Not(a bool) bool        { return !a }
func Implies(a, b bool) bool { return !a || b }
func Iff(a, b bool) bool     { return a == b }

// Panics runs f and reports whether it panicked.
func Panics(f func()) (p bool) {
	defer func() {
		if r := recover(); r != nil {
			if _, ok := r.(assumeFailed); ok {
				panic(r)
			}
			p = true
		}
	}()
	f()
	return false
}

// PanicMsg runs f and returns the panic message ("" if none).
func PanicMsg(f func()) (msg string) {
	defer func() {
		if r := recover(); r != nil {
			if _, ok := r.(assumeFailed); ok {
				panic(r)
			}
			msg = fmt.Sprint(r)
			if e, ok := r.(error); ok {
				msg = e.Error()
			}
		}
	}()
	f()
	return ""
}

// TrackMutexes: in the engine sync.Mutex / RWMutex are no-ops by default (one thread).  When switched on, the
// engine keeps their lock state, and acquiring a lock that is held parks the caller: under RunUntilBlocked this
// models another goroutine that calls into a monitor while the current one is inside it.  Natively a no-op.
func TrackMutexes(on bool) {}

// YieldOnWaitGroup: in the engine sync.WaitGroup.Wait is a no-op by default (the harness runs the goroutines
// itself); when switched on, Wait calls the OnYield environment once (tag "wg"), which is expected to run the
// goroutines that are waited for.  Natively the real WaitGroup waits.
func YieldOnWaitGroup(on bool) {}

// RandExtremes restricts the engine's exploration of math/rand.Intn(n) to the outcomes 0 and n-1
// (a stated cut; natively the real generator runs).
func RandExtremes(on bool) {}

// NondetMaps asks the engine to explore every iteration order of maps (≤5 entries).
func NondetMaps(on bool) {}

// Unwind sets the per-path decision (unwinding) cap.
func Unwind(n int) {}

// Sequentialised-concurrency hooks (engine only).
func NumGo() int                     { panic("sym.NumGo: engine only") }
func RunGo(i int) bool               { panic("sym.RunGo: engine only") }
// RunUntilBlocked runs f and reports whether it blocked forever.  Natively f runs in its own
// goroutine; whenever it has not finished for 60 ms it is taken to be blocked and the environment
// registered with OnYield makes one step; once the environment says that nothing will happen any
// more, f gets 400 ms to finish on its own (timers) before it is declared blocked.
func RunUntilBlocked(f func()) (blocked bool) {
	done := make(chan interface{}, 1)
	go func() {
		defer func() { done <- recover() }()
		f()
	}()
	wait := func(d time.Duration) bool {
		select {
		case p := <-done:
			if p != nil {
				panic(p)
			}
			return true
		case <-time.After(d):
			return false
		}
	}
	for step := 0; step < 16; step++ {
		if wait(60 * time.Millisecond) {
			return false
		}
		if yieldFn == nil || !yieldFn("blocked") {
			return !wait(400 * time.Millisecond)
		}
	}
	return !wait(400 * time.Millisecond)
}

type failer interface {
	Fatalf(format string, args ...interface{})
	Logf(format string, args ...interface{})
}

// ReplayMain runs the cases of $VERIF_REPLAY_IN natively and writes $VERIF_REPLAY_OUT.
func ReplayMain(t failer, harnesses map[string]func()) {
	in, outp := os.Getenv("VERIF_REPLAY_IN"), os.Getenv("VERIF_REPLAY_OUT")
	if in == "" {
		t.Logf("VERIF_REPLAY_IN not set; nothing to replay")
		return
	}
	data, err := os.ReadFile(in)
	if err != nil {
		t.Fatalf("read %s: %v", in, err)
	}
	var cases []Case
	if err := json.Unmarshal(data, &cases); err != nil {
		t.Fatalf("parse %s: %v", in, err)
	}
	var outs []Outcome
	for i := range cases {
		c := &cases[i]
		f := harnesses[c.Harness]
		if f == nil {
			t.Fatalf("unknown harness %q", c.Harness)
		}
		outs = append(outs, runCase(c, f))
	}
	data, _ = json.MarshalIndent(outs, "", " ")
	if outp != "" {
		if err := os.WriteFile(outp, data, 0o644); err != nil {
			t.Fatalf("write %s: %v", outp, err)
		}
	} else {
		t.Logf("%s", data)
	}
}

func runCase(c *Case, f func()) (o Outcome) {
	cur = c
	yieldFn, clockSet = nil, false
	out = &Outcome{Harness: c.Harness, Failures: []string{}, Observations: [][2]string{}}
	reached = map[string]bool{}
	defer func() {
		if r := recover(); r != nil {
			if _, ok := r.(assumeFailed); ok {
				out.AssumeFailed = true
			} else {
				out.Panic = strings.TrimSpace(fmt.Sprint(r))
				if out.Panic == "" {
					out.Panic = "panic"
				}
			}
		}
		for k := range reached {
			out.Reached = append(out.Reached, k)
		}
		sort.Strings(out.Reached)
		o = *out
	}()
	f()
	return
}

// IntMode switches the engine to mathematical integers with no-overflow
// obligations for the symbolic inputs declared afterwards (linear arithmetic
// instead of bit-blasting).  Overflows reports how many operations could wrap.
func IntMode(on bool) {}
func Overflows() int   { return 0 }

func IteI64(c bool, a, b int64) int64 {
	if c {
		return a
	}
	return b
}
func BoolToI64(b bool) int64 {
	if b {
		return 1
	}
	return 0
}

// Environment hooks of the sequentialised-concurrency harnesses.  Under the engine a blocking
// primitive (sync.Cond.Wait, ...) calls the function registered with OnYield: the environment
// acts (other goroutines' effects) and says whether anything will ever happen again.  Natively
// the code under test runs in a real goroutine and the environment is stepped whenever that
// goroutine has made no progress for a while (see RunUntilBlocked).
var (
	yieldFn   func(tag string) bool
	clockBase time.Time
	clockNs   int64
	clockSet  bool
)

func OnYield(f func(tag string) bool) { yieldFn = f }

// SetNow sets the harness clock (nanoseconds).  Natively time cannot be set: the first call
// defines the origin and later calls sleep until the requested instant has really passed.
func SetNow(ns int64) {
	if !clockSet {
		clockSet, clockBase, clockNs = true, time.Now(), ns
		return
	}
	if d := time.Duration(ns-clockNs) - time.Since(clockBase); d > 0 {
		if d > 2*time.Second {
			d = 2 * time.Second
		}
		time.Sleep(d)
	}
}
func FireTimers() int  { time.Sleep(20 * time.Millisecond); return 0 } // real timers fire by themselves
func ArmedTimers() int { return 0 }
