package sym

import (
	"fmt"
	"reflect"
	"strings"
)

// formatReflect renders aggregates the same way the engine does:
// byte sequences as hex, other sequences as [a b c], structs as {a b}.
func formatReflect(v interface{}) string { return fmtVal(reflect.ValueOf(v)) }

func fmtVal(rv reflect.Value) string {
	switch rv.Kind() {
	case reflect.Bool:
		return fmt.Sprint(rv.Bool())
	case reflect.Int, reflect.Int8, reflect.Int16, reflect.Int32, reflect.Int64:
		return fmt.Sprint(rv.Int())
	case reflect.Uint, reflect.Uint8, reflect.Uint16, reflect.Uint32, reflect.Uint64, reflect.Uintptr:
		return fmt.Sprint(rv.Uint())
	case reflect.String:
		return fmt.Sprintf("%x", rv.String())
	case reflect.Slice, reflect.Array:
		if rv.Len() == 0 {
			return ""
		}
		if rv.Type().Elem().Kind() == reflect.Uint8 {
			var sb strings.Builder
			for i := 0; i < rv.Len(); i++ {
				fmt.Fprintf(&sb, "%02x", uint8(rv.Index(i).Uint()))
			}
			return sb.String()
		}
		parts := make([]string, rv.Len())
		for i := range parts {
			parts[i] = fmtVal(rv.Index(i))
		}
		return "[" + strings.Join(parts, " ") + "]"
	case reflect.Struct:
		parts := make([]string, rv.NumField())
		for i := range parts {
			parts[i] = fmtVal(rv.Field(i))
		}
		return "{" + strings.Join(parts, " ") + "}"
	case reflect.Interface:
		if rv.IsNil() {
			return "nil"
		}
		return fmtVal(rv.Elem())
	case reflect.Ptr:
		if rv.IsNil() {
			return "nil"
		}
		return "ptr"
	}
	return fmt.Sprintf("<%s>", rv.Type())
}
