package abft

import (
	"github.com/Fantom-foundation/lachesis-base/abft/dagidx"
	"github.com/Fantom-foundation/lachesis-base/hash"
	"github.com/Fantom-foundation/lachesis-base/inter/dag"
	"github.com/Fantom-foundation/lachesis-base/inter/idx"
	"github.com/Fantom-foundation/lachesis-base/inter/pos"
	"github.com/Fantom-foundation/lachesis-base/lachesis"
	"github.com/Fantom-foundation/lachesis-base/zzverif/sym"
)

// ---- unit harness of the block assembly: real Lachesis.applyAtropos over a real Store, stubbed vector clock ----

type vSeq struct{ fork bool }

func (s vSeq) Seq() idx.Event       { return 1 }
func (s vSeq) IsForkDetected() bool { return s.fork }

type vMerged struct{ forks []bool }

func (m vMerged) Size() int                      { return len(m.forks) }
func (m vMerged) Get(i idx.Validator) dagidx.Seq { return vSeq{m.forks[i]} }

type vClockStub struct{ forks []bool }

func (c vClockStub) GetMergedHighestBefore(hash.Event) dagidx.HighestBeforeSeq {
	return vMerged{c.forks}
}
func (c vClockStub) ForklessCause(a, b hash.Event) bool { return false }

// verifC03Apply: V validators with symbolic weights, the Atropos' merged clock reports a fork for an ARBITRARY
// subset of them (any number of forkers: the list is "exactly the visible forkers", whatever their number or weight).
func verifC03Apply(V int) {
	sym.IntMode(true)
	wn := [...]string{"w0", "w1", "w2", "w3", "w4", "w5", "w6"}
	fn := [...]string{"fork0", "fork1", "fork2", "fork3", "fork4", "fork5", "fork6"}
	b := pos.NewBuilder()
	for i := 0; i < V; i++ {
		w := pos.Weight(sym.U32(wn[i]))
		sym.Assume(w >= 1 && w <= 1<<20)
		b.Set(idx.ValidatorID(10+i), w)
	}
	vals := b.Build()
	forks := make([]bool, V)
	for i := range forks {
		forks[i] = sym.Bool(fn[i])
	}
	store := verifStore(100, 10)
	store.cache.EpochState = &EpochState{Epoch: 1, Validators: vals}
	store.cache.LastDecidedState = &LastDecidedState{LastDecidedFrame: 0}
	at := &dag.MutableBaseEvent{}
	at.SetEpoch(1)
	at.SetSeq(1)
	at.SetLamport(1)
	at.SetCreator(10)
	at.SetID([24]byte{7})
	events := vEvents{at.ID(): at}
	l := NewLachesis(store, events, vClockStub{forks}, func(err error) { panic(err) }, LiteConfig())
	var got []idx.ValidatorID
	blocks, applied := 0, 0
	l.callback = lachesis.ConsensusCallbacks{BeginBlock: func(bl *lachesis.Block) lachesis.BlockCallbacks {
		blocks++
		got = append([]idx.ValidatorID{}, bl.Cheaters...)
		sym.Assert(bl.Atropos == at.ID(), "the block names its Atropos")
		return lachesis.BlockCallbacks{ApplyEvent: func(dag.Event) { applied++ }}
	}}
	l.applyAtropos(1, at.ID())
	sym.Assert(blocks == 1 && applied == 1, "one block, delivering the Atropos")
	// reference: the canonical order is weight descending, then ID ascending; written here without the library's sort
	var want []idx.ValidatorID
	ids := vals.SortedIDs()
	for i, id := range ids {
		if i > 0 {
			wp, wc := vals.Get(ids[i-1]), vals.Get(id)
			sym.Assert(wp > wc || (wp == wc && ids[i-1] < id), "canonical validator order: weight descending, then ID ascending")
		}
		if forks[i] {
			want = append(want, id)
		}
	}
	sym.Assert(len(got) == len(want), "cheater list has exactly the visible forkers (C03)")
	if len(got) == len(want) {
		for j := range want {
			sym.Assert(got[j] == want[j], "cheaters in canonical validator order (C03)")
		}
	}
	if len(want) > V/3+1 {
		sym.Reach("many-forkers")
	}
	sym.Reach("apply")
}

func VerifH_C03_apply4() { verifC03Apply(4) }
func VerifH_C03_apply5() { verifC03Apply(5) }
