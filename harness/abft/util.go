package abft

import "math/big"

type bigInt = big.Int
