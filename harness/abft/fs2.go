package abft

import (
	"github.com/Fantom-foundation/lachesis-base/hash"
	"github.com/Fantom-foundation/lachesis-base/inter/dag"
	"github.com/Fantom-foundation/lachesis-base/inter/idx"
	"github.com/Fantom-foundation/lachesis-base/inter/pos"
	"github.com/Fantom-foundation/lachesis-base/kvdb"
	"github.com/Fantom-foundation/lachesis-base/kvdb/memorydb"
	"github.com/Fantom-foundation/lachesis-base/zzverif/sym"
)

// ---------------------------------------------------------------------
// C07: rejected and merely built events leave no trace

func verifC07(kind, V, rounds int, seed uint32) {
	r := newVRun(kind, V, rounds, seed)
	for i := range r.d.script {
		r.feed(i)
	}
	// dirty instance: before every real event, a speculative Build that is never processed and a
	// Process with a wrong claimed frame (symbolic which), then a Build of the real event.
	dirty := newVNode(r.vals, nil, nil, nil)
	junk := sym.Choice("junk", 6) // 0: speculative build, 1: wrong frame above, 2: both, 3: decoy build (other parents), 4: draft re-built, 5: small decoy right before the real event
	last := make([]int, V)        // latest event of every validator among those fed so far
	for v := range last {
		last[v] = -1
	}
	at := sym.Choice("at", 3) // inject before every event / only before every 2nd / only in the second half
	for i, e := range r.d.evs {
		inject := at == 0 || (at == 1 && i%2 == 1) || (at == 2 && i >= len(r.d.evs)/2)
		if inject && (junk == 0 || junk == 2) {
			spec := r.d.materialise(i, 1) // same parents as the real event, never processed
			sym.Assert(dirty.lch.Build(spec) == nil, "speculative Build succeeds")
			sym.Assert(spec.Frame() == e.Frame(), "Build assigns the same frame on the instance with earlier builds/rejections (C07)")
		}
		if inject && (junk == 1 || junk == 2) {
			bad := r.d.materialise(i, 1)
			bad.SetFrame(e.Frame() + idx.Frame(1+sym.Choice("delta", 2)))
			bad.SetID(vTail(1000 + i)) // a different event: the rejected one is never stored
			dirty.events[bad.ID()] = bad
			err := dirty.lch.Process(bad)
			sym.Assert(err == ErrWrongFrame, "a frame above the allowed one is rejected with ErrWrongFrame")
			delete(dirty.events, bad.ID())
		}
		if inject && junk == 3 {
			// a DIFFERENT event of the same creator and sequence number: it references the newest event of every
			// other validator; it is built (and in every second case also rejected for a wrong frame), never connected
			c := r.d.script[i].creator
			decoy := &dag.MutableBaseEvent{}
			decoy.SetEpoch(1)
			decoy.SetCreator(e.Creator())
			decoy.SetSeq(e.Seq())
			var parents hash.Events
			lamport := idx.Lamport(0)
			if sp := r.d.script[i].self; sp >= 0 {
				parents = append(parents, r.d.evs[sp].ID())
				lamport = r.d.evs[sp].Lamport()
			}
			for v := 0; v < V; v++ {
				if v != c && last[v] >= 0 {
					parents = append(parents, r.d.evs[last[v]].ID())
					lamport = idx.MaxLamport(lamport, r.d.evs[last[v]].Lamport())
				}
			}
			decoy.SetParents(parents)
			decoy.SetLamport(lamport + 1)
			sym.Assert(dirty.lch.Build(decoy) == nil, "Build of a decoy succeeds")
			if i%2 == 1 {
				decoy.SetFrame(decoy.Frame() + 1)
				decoy.SetID(vTail(2000 + i))
				dirty.events[decoy.ID()] = decoy
				sym.Assert(dirty.lch.Process(decoy) == ErrWrongFrame, "a frame above the allowed one is rejected with ErrWrongFrame")
				delete(dirty.events, decoy.ID())
			}
			spec := r.d.materialise(i, 1) // and the real event, built on the instance that saw the decoys
			sym.Assert(dirty.lch.Build(spec) == nil, "speculative Build succeeds")
			sym.Assert(spec.Frame() == e.Frame(), "Build assigns the same frame on the instance with earlier builds/rejections (C07)")
			sym.Reach("decoy")
		}
		if inject && junk == 4 && r.d.script[i].self >= 0 {
			// the SAME mutable event object is built twice: first as a draft that knows only its self-parent,
			// then completed with its real parents and built again (the emitter re-using its event under construction)
			obj := r.d.materialise(i, 1)
			realParents, realLamport := obj.Parents(), obj.Lamport()
			obj.SetParents(hash.Events{realParents[0]})
			obj.SetLamport(r.d.evs[r.d.script[i].self].Lamport() + 1)
			sym.Assert(dirty.lch.Build(obj) == nil, "Build of a draft succeeds")
			obj.SetParents(realParents)
			obj.SetLamport(realLamport)
			sym.Assert(dirty.lch.Build(obj) == nil, "Build of the completed event succeeds")
			sym.Assert(obj.Frame() == e.Frame(), "Build assigns the same frame on the instance with earlier builds/rejections (C07)")
			sym.Reach("draft-rebuilt")
		}
		if inject && junk == 5 {
			// first the real event is built (its frame must be the clean one: traces of earlier decoys would show
			// here), then a SMALL decoy of the same creator and sequence number is built -- self-parent plus ONE
			// recent event of another validator (symbolic which) -- and the real event is processed right after it
			c := r.d.script[i].creator
			spec := r.d.materialise(i, 1)
			sym.Assert(dirty.lch.Build(spec) == nil, "speculative Build succeeds")
			sym.Assert(spec.Frame() == e.Frame(), "Build assigns the same frame on the instance with earlier builds/rejections (C07)")
			// the decoy's other parent: any of the four most recently fed events of another validator
			pi := i - 1 - sym.Choice("decoyParent", 4)
			if pi >= 0 && r.d.script[pi].creator != c {
				decoy := &dag.MutableBaseEvent{}
				decoy.SetEpoch(1)
				decoy.SetCreator(e.Creator())
				decoy.SetSeq(e.Seq())
				var parents hash.Events
				lamport := r.d.evs[pi].Lamport()
				if sp := r.d.script[i].self; sp >= 0 {
					parents = append(parents, r.d.evs[sp].ID())
					lamport = idx.MaxLamport(lamport, r.d.evs[sp].Lamport())
				}
				parents = append(parents, r.d.evs[pi].ID())
				decoy.SetParents(parents)
				decoy.SetLamport(lamport + 1)
				sym.Assert(dirty.lch.Build(decoy) == nil, "Build of a decoy succeeds")
				sym.Reach("small-decoy")
			}
		}
		dirty.events[e.ID()] = e
		sym.Assert(dirty.lch.Process(e) == nil, "later events are accepted exactly as on the clean instance (C07)")
		last[r.d.script[i].creator] = i
	}
	sym.Assert(sameBlocks(r.n0.blocks, dirty.blocks), "blocks are identical to those of the instance that never saw the built/rejected events (C07)")
	r.checkBlocks(dirty)
	sym.Reach("c07")
}

func VerifH_C07_meshV3() { verifC07(0, 3, 5, 1) }
func VerifH_C07_forkV3() { verifC07(3, 3, 8, 1) }
func VerifH_C07_lcgV4()  { verifC07(4, 4, 6, 3) }

// ---------------------------------------------------------------------
// C08: restart at any event boundary is invisible

func copyDB(src kvdb.Store) kvdb.Store {
	dst := memorydb.New()
	it := src.NewIterator(nil, nil)
	for it.Next() {
		if err := dst.Put(it.Key(), it.Value()); err != nil {
			panic(err)
		}
	}
	it.Release()
	return dst
}

func verifC08(kind, V, rounds int, seed uint32) {
	r := newVRun(kind, V, rounds, seed)
	for i := range r.d.script {
		r.feed(i)
	}
	N := len(r.d.evs)
	k := sym.Choice("boundary", N+1) // restart after k events (0 = before the first, N = after the last)
	a := newVNode(r.vals, nil, nil, nil)
	for i := 0; i < k; i++ {
		a.events[r.d.evs[i].ID()] = r.d.evs[i]
		sym.Assert(a.lch.Process(r.d.evs[i]) == nil, "event accepted before the restart")
	}
	// restart: database contents copied through iterators into fresh stores, fresh index, Bootstrap
	epoch := a.store.GetEpoch()
	b := newVNode(nil, copyDB(a.store.mainDB), map[idx.Epoch]kvdb.Store{epoch: copyDB(a.store.epochDB)}, a.events)
	sym.Assert(b.store.GetEpoch() == epoch, "epoch survives the restart")
	sym.Assert(b.store.GetLastDecidedFrame() == a.store.GetLastDecidedFrame(), "last decided frame survives the restart")
	sym.Assert(len(b.blocks) == 0, "a restart re-emits no block")
	for i := k; i < N; i++ {
		b.events[r.d.evs[i].ID()] = r.d.evs[i]
		sym.Assert(b.lch.Process(r.d.evs[i]) == nil, "event accepted after the restart")
	}
	all := append(append([]vBlock{}, a.blocks...), b.blocks...)
	sym.Assert(sameBlocks(r.n0.blocks, all), "blocks before plus after the restart equal those of an uninterrupted instance (C08)")
	// the restarted instance also builds the same frames
	if k < N {
		spec := r.d.materialise(N-1, epoch)
		sym.Assert(b.lch.Build(spec) == nil && spec.Frame() == r.d.evs[N-1].Frame(), "the restarted instance builds the same frame")
	}
	if len(a.blocks) > 0 && len(b.blocks) > 0 {
		sym.Reach("restart-between-blocks")
	}
	sym.Reach("c08")
}

func VerifH_C08_meshV3() { verifC08(0, 3, 5, 1) }
func VerifH_C08_forkV3() { verifC08(3, 3, 8, 1) }
func VerifH_C08_lcgV4()  { verifC08(4, 4, 6, 3) }

// ---------------------------------------------------------------------
// C09: epoch sealing switches cleanly to the new validator set

func vNewWeights(V int) (*pos.Validators, []pos.Weight) { return vNewWeightsOrd(V, false) }

// ascending: the new weights are strictly increasing with the validator index, so the canonical order of the
// new set is the REVERSE of the old one
func vNewWeightsOrd(V int, ascending bool) (*pos.Validators, []pos.Weight) {
	xn := [...]string{"x0", "x1", "x2", "x3"}
	ids := make([]idx.ValidatorID, V)
	ws := make([]pos.Weight, V)
	var total uint64
	for i := 0; i < V; i++ {
		ids[i] = idx.ValidatorID(i + 1)
		ws[i] = pos.Weight(sym.U32(xn[i]))
		sym.Assume(ws[i] >= 1)
		if i > 0 && !ascending {
			sym.Assume(ws[i-1] >= ws[i])
		}
		if i > 0 && ascending {
			sym.Assume(ws[i-1] < ws[i])
		}
		total += uint64(ws[i])
	}
	sym.Assume(total <= 1<<31-1)
	return pos.ArrayToValidators(ids, ws), ws
}

func sameValidators(a, b *pos.Validators) bool {
	if a.Len() != b.Len() || a.TotalWeight() != b.TotalWeight() {
		return false
	}
	ok := true
	for i, id := range a.SortedIDs() {
		ok = sym.And(ok, sym.And(b.SortedIDs()[i] == id, a.GetWeightByIdx(idx.Validator(i)) == b.GetWeightByIdx(idx.Validator(i))))
	}
	return ok
}

func verifC09(kind, V, rounds int, seed uint32) { verifC09x(kind, V, rounds, seed, false) }

// grow: the new validator set has ONE MORE validator than the old one
func verifC09x(kind, V, rounds int, seed uint32, grow bool) {
	V2 := V
	if grow {
		V2 = V + 1
		sym.Reach("validator-set-grows")
	}
	r := newVRun(kind, V, rounds, seed)
	reversed := sym.Choice("newOrder", 2) == 1 // the new set keeps / reverses the canonical order of the validators
	newVals, newWs := vNewWeightsOrd(V2, reversed)
	sealAt := idx.Frame(1 + sym.Choice("sealAt", 2)) // the block that seals the epoch
	r.n0.seal = func(b *vBlock) *pos.Validators {
		if b.epoch == 1 && b.frame == sealAt {
			return newVals
		}
		return nil
	}
	sealedAfter := -1
	for i := range r.d.script {
		if r.n0.store.GetEpoch() != 1 {
			break
		}
		nb := len(r.n0.blocks)
		r.feed(i)
		if r.n0.store.GetEpoch() != 1 {
			sealedAfter = i
			if len(r.n0.blocks) >= nb+2 && r.ref.frames[i] >= r.ref.spf(i)+2 {
				sym.Reach("sealed-in-cascade-of-multiframe-root")
			}
		}
	}
	if sealedAfter < 0 {
		sym.Reach("not-sealed")
		return
	}
	sym.Reach("sealed")
	n := r.n0
	sym.Assert(n.store.GetEpoch() == 2, "sealing advances the epoch by exactly one")
	sym.Assert(sameValidators(n.store.GetValidators(), newVals), "the new epoch uses exactly the validator set returned by the application")
	sym.Assert(n.store.GetLastDecidedFrame() == 0, "the new epoch starts with no decided frame")
	for f := idx.Frame(1); f <= 4; f++ {
		sym.Assert(len(n.store.GetFrameRoots(f)) == 0, "the new epoch starts with no roots")
	}
	nOld := len(n.blocks)
	sym.Assert(n.blocks[nOld-1].epoch == 1 && n.blocks[nOld-1].frame == sealAt, "the sealing block is the last block of the old epoch")
	for k, b := range n.blocks {
		sym.Assert(b.epoch == 1 && b.frame == idx.Frame(k+1), "old-epoch blocks are consecutive up to the sealing block")
	}
	// an old-epoch event is no longer accepted into the DAG of the new epoch: Build reports through crit
	// second epoch: a fresh script under the new weights, on the sealed instance and on an instance Reset directly
	script2 := vScript(0, V2, 5, seed+1)
	d2 := &vDag{script: script2, evs: make([]*dag.MutableBaseEvent, len(script2)), anc: make([][]bool, len(script2)), V: V2}
	ref2 := &vRef{d: d2, w: newWs, q: newVals.Quorum(), frames: make([]idx.Frame, len(script2))}
	if reversed {
		for v := V2 - 1; v >= 0; v-- {
			ref2.order = append(ref2.order, v)
		}
		sym.Reach("order-reversed")
	}
	direct := newVNode(r.vals, nil, nil, nil)
	sym.Assert(direct.lch.Reset(2, newVals) == nil, "Reset to the new epoch succeeds")
	// and an instance that sealed the old epoch itself but was given the OLD validator set for the new epoch, and is
	// then Reset into the epoch it is already in (no frame decided yet) with the new set
	again := newVNode(r.vals, nil, nil, nil)
	again.seal = func(b *vBlock) *pos.Validators {
		if b.epoch == 1 && b.frame == sealAt {
			return r.vals
		}
		return nil
	}
	for i := 0; i <= sealedAfter; i++ {
		again.events[r.d.evs[i].ID()] = r.d.evs[i]
		sym.Assert(again.lch.Process(r.d.evs[i]) == nil, "every valid event is accepted in any parents-first order (C01)")
	}
	sym.Assert(again.store.GetEpoch() == 2 && again.lch.Reset(2, newVals) == nil, "Reset into the current, still blank epoch with another validator set succeeds")
	nAgainOld := len(again.blocks)
	// and an instance restarted from the persisted databases right after the seal (C08 across an epoch boundary)
	restarted := newVNode(nil, copyDB(n.store.mainDB), map[idx.Epoch]kvdb.Store{2: copyDB(n.store.epochDB)}, n.events)
	sym.Assert(restarted.store.GetEpoch() == 2 && restarted.store.GetLastDecidedFrame() == 0, "epoch and last decided frame survive a restart right after the seal (C08)")
	for i := range script2 {
		e := d2.materialise(i, 2)
		d2.evs[i] = e
		sym.Assert(n.lch.Build(e) == nil, "Build in the new epoch succeeds")
		e.SetID(vTail(500 + i))
		n.events[e.ID()] = e
		sym.Assert(e.Frame() == ref2.add(i), "frames of the new epoch follow the frame rule under the NEW weights")
		sym.Assert(n.lch.Process(e) == nil, "new-epoch event accepted")
		direct.events[e.ID()] = e
		sym.Assert(direct.lch.Process(e) == nil, "new-epoch event accepted by the instance reset directly to the new epoch")
		sym.Assert(restarted.lch.Process(e) == nil, "new-epoch event accepted by the instance restarted right after the seal (C08)")
		again.events[e.ID()] = e
		sym.Assert(again.lch.Process(e) == nil, "new-epoch event accepted by the instance reset into its current blank epoch")
	}
	want := ref2.decideAll()
	newBlocks := n.blocks[nOld:]
	sym.Assert(len(newBlocks) == len(want), "the new epoch decides as the reference does under the new weights")
	for k, b := range newBlocks {
		sym.Assert(b.epoch == 2 && b.frame == idx.Frame(k+1), "the new epoch numbers its blocks from frame 1")
		if k < len(want) {
			sym.Assert(b.atropos == d2.idOf(want[k]), "new-epoch Atropos equals the reference under the new weights")
		}
	}
	sym.Assert(sameBlocks(newBlocks, direct.blocks), "an instance reset directly to the new epoch emits the same blocks")
	sym.Assert(sameBlocks(newBlocks, again.blocks[nAgainOld:]), "an instance reset into its current blank epoch with the new set emits the same blocks")
	sym.Assert(sameBlocks(newBlocks, restarted.blocks), "an instance restarted right after the seal emits the same blocks as the one that kept running (C08)")
	if len(newBlocks) > 0 {
		sym.Reach("new-epoch-block")
	}
}

func VerifH_C09_meshV3()    { verifC09(0, 3, 5, 1) }
func VerifH_C09_cascadeV4() { verifC09(9, 4, 0, 1) }
func VerifH_C09_growV3()    { verifC09x(0, 3, 5, 1, true) }
func VerifH_C09_lcgV3()     { verifC09(4, 3, 7, 7) }
func VerifH_C09_meshV4()    { verifC09(0, 4, 5, 1) }

func VerifH_C08_laggingV3() { verifC08(2, 3, 9, 1) }
func VerifH_C08_laggingV4() { verifC08(2, 4, 9, 1) }
func VerifH_C09_laggingV3() { verifC09(2, 3, 10, 1) }
func VerifH_C09_laggingV4() { verifC09(2, 4, 10, 1) }

func VerifH_C08_lagheavyV3() { verifC08(6, 3, 10, 1) }
func VerifH_C08_lagheavyV4() { verifC08(6, 4, 10, 1) }
func VerifH_C09_lagheavyV3() { verifC09(6, 3, 10, 1) }
func VerifH_C09_lagheavyV4() { verifC09(6, 4, 10, 1) }

// ---------------------------------------------------------------------
// C08 (unit level): what a restarted instance reads from the copied databases equals what the
// running instance sees (cache + table), for arbitrary short histories of persisted updates.

func verifC08Store(nOps int) {
	s := verifStore(1000, 100)
	s.applyGenesis(1, nil)
	opn := [...]string{"sop0", "sop1", "sop2", "sop3"}
	spn := [...]string{"sspf0", "sspf1", "sspf2", "sspf3"}
	frn := [...]string{"sfr0", "sfr1", "sfr2", "sfr3"}
	crn := [...]string{"scr0", "scr1", "scr2", "scr3"}
	var confirmed []dag.Event
	for i := 0; i < nOps; i++ {
		switch sym.Choice(opn[i], 4) {
		case 0, 1: // a root spanning 1-3 frames
			spf := idx.Frame(sym.Choice(spn[i], 3))
			frame := spf + 1 + idx.Frame(sym.Choice(frn[i], 3))
			e := &dag.MutableBaseEvent{}
			e.SetEpoch(1)
			e.SetFrame(frame)
			e.SetCreator(idx.ValidatorID(1 + sym.Choice(crn[i], 2)))
			e.SetLamport(idx.Lamport(i + 1))
			e.SetID([24]byte{byte(i + 1)})
			if sym.Choice("warm", 2) == 1 {
				s.GetFrameRoots(spf + 1) // the frame may or may not be cached when the root arrives
			}
			s.AddRoot(spf, e)
			sym.Reach("root")
		case 2:
			e := &dag.MutableBaseEvent{}
			e.SetEpoch(1)
			e.SetID([24]byte{byte(100 + i)})
			s.SetEventConfirmedOn(e.ID(), idx.Frame(1+sym.Choice(frn[i], 3)))
			confirmed = append(confirmed, e)
		case 3:
			s.SetLastDecidedState(&LastDecidedState{LastDecidedFrame: idx.Frame(sym.U32("ldf"))})
		}
	}
	// restart: copy the databases, open a fresh store
	main2, epoch2 := copyDB(s.mainDB), copyDB(s.epochDB)
	r := NewStore(main2, func(idx.Epoch) kvdb.Store { return epoch2 }, func(err error) { panic(err) }, LiteStoreConfig())
	if err := r.openEpochDB(1); err != nil {
		panic(err)
	}
	sym.Assert(r.GetLastDecidedFrame() == s.GetLastDecidedFrame(), "last decided frame survives a restart")
	sym.Assert(r.GetEpoch() == s.GetEpoch(), "epoch survives a restart")
	for f := idx.Frame(1); f <= 6; f++ {
		a, b := s.GetFrameRoots(f), r.GetFrameRoots(f)
		sym.Assert(len(a) == len(b), "a restarted instance finds the same number of roots in every frame")
		for _, x := range a {
			found := false
			for _, y := range b {
				if x == y {
					found = true
				}
			}
			sym.Assert(found, "a restarted instance finds every root of every frame")
		}
	}
	for _, e := range confirmed {
		sym.Assert(r.GetEventConfirmedOn(e.ID()) == s.GetEventConfirmedOn(e.ID()), "confirmation marks survive a restart")
	}
	sym.Reach("store-restart")
}

func VerifH_C08_store2() { verifC08Store(2) }
func VerifH_C08_store3() { verifC08Store(3) }

func VerifH_C07_chainV3()  { verifC07(1, 3, 6, 1) }
func VerifH_C07_sparseV3() { verifC07(11, 3, 0, 1) }
func VerifH_C07_lcgV3()    { verifC07(4, 3, 6, 7) }
