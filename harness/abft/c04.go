package abft

import (
	"github.com/Fantom-foundation/lachesis-base/hash"
	"github.com/Fantom-foundation/lachesis-base/inter/dag"
	"github.com/Fantom-foundation/lachesis-base/inter/idx"
	"github.com/Fantom-foundation/lachesis-base/inter/pos"
	"github.com/Fantom-foundation/lachesis-base/kvdb"
	"github.com/Fantom-foundation/lachesis-base/zzverif/sym"
)

// ---- frame rule fixture: real Orderer + real Store, stubbed DAG index / event source ----

type vEvents map[hash.Event]dag.Event

func (m vEvents) HasEvent(h hash.Event) bool      { _, ok := m[h]; return ok }
func (m vEvents) GetEvent(h hash.Event) dag.Event { return m[h] }

type vFC struct {
	fc    map[hash.Event]bool // symbolic: does the event under test forkless-cause this root?
	asked int
}

func (x *vFC) ForklessCause(a, b hash.Event) bool {
	x.asked++
	v, ok := x.fc[b]
	if !ok {
		panic("ForklessCause asked for an unknown root")
	}
	return v
}

type vRootDef struct {
	frame   idx.Frame
	creator int
	id      hash.Event
}

func vRootID(frame idx.Frame, creator int, k byte) hash.Event {
	e := &dag.MutableBaseEvent{}
	e.SetEpoch(1)
	e.SetLamport(idx.Lamport(frame))
	var tail [24]byte
	tail[0], tail[1], tail[2] = byte(frame), byte(creator), k
	e.SetID(tail)
	return e.ID()
}

var vfcNames = [...]string{"fc0", "fc1", "fc2", "fc3", "fc4", "fc5", "fc6", "fc7", "fc8", "fc9", "fc10", "fc11"}

type vFrameFix struct {
	p      *Orderer
	store  *Store
	ws     []pos.Weight
	ids    []idx.ValidatorID
	roots  []vRootDef
	fcv    []bool
	events vEvents
	Q      pos.Weight
	fc     *vFC
}

func newVFrameFix(V int) *vFrameFix { return newVFrameFixW(V, false) }

// warm: the root lists of the frames are already cached when the roots arrive (arrival order is kept)
func newVFrameFixW(V int, warm bool) *vFrameFix {
	sym.IntMode(true)
	fx := &vFrameFix{events: vEvents{}}
	fx.ids = make([]idx.ValidatorID, V)
	fx.ws = make([]pos.Weight, V)
	wn := [...]string{"w0", "w1", "w2", "w3"}
	var total uint64
	for i := 0; i < V; i++ {
		fx.ids[i] = idx.ValidatorID(i + 1)
		fx.ws[i] = pos.Weight(sym.U32(wn[i]))
		sym.Assume(fx.ws[i] >= 1)
		if i > 0 {
			sym.Assume(fx.ws[i-1] >= fx.ws[i])
		}
		total += uint64(fx.ws[i])
	}
	sym.Assume(total <= 1<<31-1)
	vals := pos.ArrayToValidators(fx.ids, fx.ws)
	fx.Q = vals.Quorum()
	fx.store = verifStore(1000, 100)
	fx.store.cache.EpochState = &EpochState{Epoch: 1, Validators: vals}
	fx.store.cache.LastDecidedState = &LastDecidedState{LastDecidedFrame: 0}

	// roots: frame 1: every validator + a fork root of validator 0; frame 2: every validator;
	// frame 3: validators 0 and 1; frame 4 and above: none
	if warm {
		for f := idx.Frame(1); f <= 4; f++ {
			fx.store.GetFrameRoots(f)
		}
	}
	add := func(frame idx.Frame, creator int, k byte) {
		fx.roots = append(fx.roots, vRootDef{frame, creator, vRootID(frame, creator, k)})
	}
	// the fork root of validator 0 with the HIGHER event ID arrives first: the order in which a running
	// instance lists the roots of that slot (arrival) differs from the order after a restart (key order)
	add(1, 0, 1)
	for v := 0; v < V; v++ {
		add(1, v, 0)
	}
	for v := 0; v < V; v++ {
		add(2, v, 0)
	}
	add(3, 0, 0)
	add(3, 1, 0)
	fc := &vFC{fc: map[hash.Event]bool{}}
	for i, r := range fx.roots {
		re := &dag.MutableBaseEvent{}
		re.SetEpoch(1)
		re.SetCreator(fx.ids[r.creator])
		re.SetFrame(r.frame)
		re.SetLamport(idx.Lamport(r.frame))
		var tail [24]byte
		copy(tail[:], r.id[8:])
		re.SetID(tail)
		fx.store.AddRoot(r.frame-1, re)
		b := sym.Bool(vfcNames[i])
		fc.fc[r.id] = b
		fx.fcv = append(fx.fcv, b)
	}
	fx.fc = fc
	fx.p = NewOrderer(fx.store, fx.events, fc, func(err error) { panic(err) }, LiteConfig())
	return fx
}

// quorumOn: the statement's condition for frame f, written directly
func (fx *vFrameFix) quorumOn(f idx.Frame) bool {
	var w pos.Weight
	for c := range fx.ids {
		seen := false
		for i, r := range fx.roots {
			if r.frame == f && r.creator == c {
				seen = sym.Or(seen, fx.fcv[i])
			}
		}
		w += pos.Weight(sym.Ite(seen, uint64(fx.ws[c]), 0))
	}
	return w >= fx.Q
}

// event under test: creator 1; with self-parent of frame spf (spf >= 1) or without (spf == 0)
func (fx *vFrameFix) event(spf idx.Frame, claimed idx.Frame) *dag.MutableBaseEvent {
	e := &dag.MutableBaseEvent{}
	e.SetEpoch(1)
	e.SetCreator(fx.ids[0])
	e.SetLamport(10)
	e.SetFrame(claimed)
	if spf == 0 {
		e.SetSeq(1)
	} else {
		sp := &dag.MutableBaseEvent{}
		sp.SetEpoch(1)
		sp.SetCreator(fx.ids[0])
		sp.SetSeq(1)
		sp.SetFrame(spf)
		sp.SetLamport(9)
		sp.SetID([24]byte{0xee})
		fx.events[sp.ID()] = sp
		e.SetSeq(2)
		e.SetParents(hash.Events{sp.ID()})
	}
	// another parent (of validator 2) with an ARBITRARY frame: the frame rule does not depend on the frames of
	// the other parents (forkless cause is not transitive once there is a cheater)
	op := &dag.MutableBaseEvent{}
	op.SetEpoch(1)
	op.SetCreator(fx.ids[1])
	op.SetSeq(1)
	op.SetFrame(idx.Frame(sym.U32("otherParentFrame")))
	op.SetLamport(9)
	op.SetID([24]byte{0xef})
	fx.events[op.ID()] = op
	e.SetParents(append(e.Parents(), op.ID()))
	e.SetID([24]byte{0xaa})
	return e
}

func (fx *vFrameFix) highest(spf idx.Frame) idx.Frame {
	f := spf
	for ; f < spf+100 && f <= 4 && fx.quorumOn(f); f++ {
	}
	if f == 0 {
		f = 1
	}
	return f
}

func (fx *vFrameFix) registeredFor(e dag.Event, f idx.Frame) bool {
	for _, r := range fx.store.GetFrameRoots(f) {
		if r.ID == e.ID() {
			return r.Slot.Frame == f && r.Slot.Validator == e.Creator()
		}
	}
	return false
}

// VerifH_C04_process: a claimed frame is accepted exactly when allowed; roots are registered for
// exactly the frames spf+1..F, and only on acceptance.
func verifC04Process(V int) {
	fx := newVFrameFix(V)
	spf := idx.Frame(sym.Choice("spf", 3))         // 0 = no self-parent, else frame of the self-parent
	claimed := idx.Frame(sym.Choice("claimed", 6)) // 0..5
	e := fx.event(spf, claimed)
	err, gotSpf := fx.p.checkAndSaveEvent(e)
	hi := fx.highest(spf)
	lo := spf
	if lo == 0 {
		lo = 1
	}
	allowed := claimed >= lo && claimed <= hi
	sym.Assert((err == nil) == allowed, "claimed frame accepted exactly when allowed by the frame rule")
	if err == nil {
		sym.Reach("accepted")
		sym.Assert(gotSpf == spf, "self-parent frame reported")
		for f := idx.Frame(1); f <= 5; f++ {
			sym.Assert(fx.registeredFor(e, f) == (f > spf && f <= claimed), "accepted root registered for exactly frames spf+1..F")
		}
	} else {
		sym.Reach("rejected")
		sym.Assert(err == ErrWrongFrame, "rejection reports ErrWrongFrame")
		for f := idx.Frame(1); f <= 5; f++ {
			sym.Assert(!fx.registeredFor(e, f), "a rejected event registers no root")
		}
	}
}

// VerifH_C04_build: Build assigns the highest allowed frame, and processing the built event accepts it.
func verifC04Build(V int) {
	fx := newVFrameFix(V)
	spf := idx.Frame(sym.Choice("spf", 3))
	e := fx.event(spf, idx.Frame(sym.Choice("stale", 3))) // whatever frame the event carried before is irrelevant
	sym.Assert(fx.p.Build(e) == nil, "Build succeeds")
	hi := fx.highest(spf)
	sym.Assert(e.Frame() == hi, "Build assigns the highest allowed frame")
	for f := idx.Frame(1); f <= 5; f++ {
		sym.Assert(!fx.registeredFor(e, f), "Build registers no root")
	}
	err, _ := fx.p.checkAndSaveEvent(e)
	sym.Assert(err == nil, "an event that was built is accepted when processed")
	sym.Reach("built")
}

// VerifH_C08_frameRestart: the frame rule after a restart.  The roots are registered on a running store (which
// lists the roots of a frame in arrival order from its cache); the databases are then copied into a fresh
// store (which lists them in key order) and the same event is built on both: the frames must agree (C08).
func verifC08FrameRestart(V int) {
	fx := newVFrameFixW(V, true)
	spf := idx.Frame(sym.Choice("spf", 3))
	e1 := fx.event(spf, 0)
	sym.Assert(fx.p.Build(e1) == nil, "Build succeeds")
	main2, epoch2 := copyDB(fx.store.mainDB), copyDB(fx.store.epochDB)
	r := NewStore(main2, func(idx.Epoch) kvdb.Store { return epoch2 }, func(err error) { panic(err) }, LiteStoreConfig())
	if err := r.openEpochDB(1); err != nil {
		panic(err)
	}
	r.cache.EpochState = fx.store.cache.EpochState
	r.cache.LastDecidedState = fx.store.cache.LastDecidedState
	p2 := NewOrderer(r, fx.events, fx.fc, func(err error) { panic(err) }, LiteConfig())
	e2 := fx.event(spf, 0)
	sym.Assert(p2.Build(e2) == nil, "Build succeeds after the restart")
	sym.Assert(e1.Frame() == e2.Frame(), "an instance restarted from the databases builds the same frame as the one that kept running (C08)")
	sym.Assert(e1.Frame() == fx.highest(spf), "Build assigns the highest allowed frame")
	sym.Reach("frame-restart")
}

func VerifH_C08_frameRestartV3() { verifC08FrameRestart(3) }
func VerifH_C04_processV3()      { verifC04Process(3) }
func VerifH_C04_buildV3()        { verifC04Build(3) }
func VerifH_C04_processV4()      { verifC04Process(4) }
func VerifH_C04_buildV4()        { verifC04Build(4) }

// ---- temporary IDs of built events ----

// VerifH_C04_tempid: two different Build counters never yield the same temporary event ID.
func VerifH_C04_tempid() {
	c1, c2 := sym.U16("c1"), sym.U16("c2")
	sym.Assume(c1 >= 1 && c2 >= 1 && c1 < c2)
	if sym.Known("C04-tempid-collision") {
		sym.Assume(false) // region excluded while the finding is open: the whole harness is the finding witness
	}
	u1 := uniqueID{new(bigInt).SetUint64(uint64(c1) - 1)}
	u2 := uniqueID{new(bigInt).SetUint64(uint64(c2) - 1)}
	id1, id2 := u1.sample(), u2.sample()
	sym.Assert(id1 != id2, "distinct Build calls get distinct temporary event IDs")
	sym.Reach("tempid")
}
