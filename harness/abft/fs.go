package abft

// Full-stack harness (FS): real Store over real memorydb/flushable/table, real
// vecfc.Index / vecengine, real IndexedLachesis and election; concrete DAG scripts,
// SYMBOLIC validator weights.  Control flow forks only where weights are compared,
// so every path is one consensus run that the solver decides for all weights of
// its region.  Serves C01, C02, C03, C07, C08, C09 and C10.

import (
	"github.com/Fantom-foundation/lachesis-base/hash"
	"github.com/Fantom-foundation/lachesis-base/inter/dag"
	"github.com/Fantom-foundation/lachesis-base/inter/idx"
	"github.com/Fantom-foundation/lachesis-base/inter/pos"
	"github.com/Fantom-foundation/lachesis-base/kvdb"
	"github.com/Fantom-foundation/lachesis-base/kvdb/memorydb"
	"github.com/Fantom-foundation/lachesis-base/lachesis"
	"github.com/Fantom-foundation/lachesis-base/utils/adapters"
	"github.com/Fantom-foundation/lachesis-base/vecfc"
	"github.com/Fantom-foundation/lachesis-base/zzverif/sym"
)

type vBlock struct {
	epoch    idx.Epoch
	frame    idx.Frame
	atropos  hash.Event
	cheaters []idx.ValidatorID
	applied  []hash.Event
}

type vNode struct {
	lch      *IndexedLachesis
	store    *Store
	events   vEvents
	blocks   []vBlock
	mainDB   kvdb.Store
	epochDBs map[idx.Epoch]kvdb.Store
	seal     func(b *vBlock) *pos.Validators
	epochs   []idx.Epoch // EpochDBLoaded notifications are not exposed; epoch of each block is recorded instead
}

// newVNode builds an instance over the given databases (fresh ones if nil).
func newVNode(genesis *pos.Validators, mainDB kvdb.Store, epochDBs map[idx.Epoch]kvdb.Store, events vEvents) *vNode {
	n := &vNode{events: events, mainDB: mainDB, epochDBs: epochDBs}
	fresh := mainDB == nil
	if fresh {
		n.mainDB = memorydb.New()
		n.epochDBs = map[idx.Epoch]kvdb.Store{}
	}
	if n.events == nil {
		n.events = vEvents{}
	}
	crit := func(err error) { panic(err) }
	served := map[idx.Epoch]bool{}
	getDB := func(epoch idx.Epoch) kvdb.Store {
		// the store asks for an epoch's database a second time only after it dropped the first one
		// (Reset into the same epoch number): a producer then opens a fresh database
		if db, ok := n.epochDBs[epoch]; ok && !served[epoch] {
			served[epoch] = true
			return db
		}
		db := memorydb.New()
		n.epochDBs[epoch] = db
		served[epoch] = true
		return db
	}
	n.store = NewStore(n.mainDB, getDB, crit, LiteStoreConfig())
	if fresh {
		if err := n.store.ApplyGenesis(&Genesis{Validators: genesis, Epoch: FirstEpoch}); err != nil {
			panic(err)
		}
	}
	n.lch = NewIndexedLachesis(n.store, n.events, &adapters.VectorToDagIndexer{Index: vecfc.NewIndex(crit, vecfc.LiteConfig())}, crit, LiteConfig())
	err := n.lch.Bootstrap(lachesis.ConsensusCallbacks{
		BeginBlock: func(block *lachesis.Block) lachesis.BlockCallbacks {
			b := &vBlock{atropos: block.Atropos, cheaters: append([]idx.ValidatorID{}, block.Cheaters...)}
			return lachesis.BlockCallbacks{
				ApplyEvent: func(e dag.Event) { b.applied = append(b.applied, e.ID()) },
				EndBlock: func() *pos.Validators {
					b.epoch = n.store.GetEpoch()
					b.frame = n.store.GetLastDecidedFrame() + 1
					n.blocks = append(n.blocks, *b)
					if n.seal != nil {
						return n.seal(b)
					}
					return nil
				},
			}
		},
	})
	if err != nil {
		panic(err)
	}
	return n
}

// ---------------------------------------------------------------------
// DAG scripts

type vScriptEv struct {
	creator int
	self    int   // index of the self-parent, -1 if none
	others  []int // other parents
}

// vScript kinds:
//
//		0 mesh:    every round, every validator references its own last event and the others' last events of the previous round
//		1 chain:   self-parent plus the latest event of the next validator only (slow convergence)
//		2 lagging: like mesh, but the last validator creates an event only every third round
//		3 fork:    like mesh, and the last validator forks once: two events on the same self-parent, shown to different peers
//		4 lcg:     pseudo-random parents from a fixed linear congruential sequence
//		5 triple:  like mesh, and the last validator starts with THREE first events x, y, z; x is received first but never
//		           referenced, the others build on y and z (a fork whose lowest branch is not in any Atropos' ancestry)
//		6 lagheavy: like mesh, but the FIRST (heaviest) validator creates an event only every third round
//		7 lateheavy: the first validator creates an event only every seed-th round, AFTER the others of that round
//		           and on top of their newest events: it can overtake them and become the first root of two
//		           consecutive frames with one event (an Atropos elected twice, the second block being empty)
//		8 twice:   a fixed 22-event DAG over 4 validators found by random search (tools/fs_repeat_search_test.go.txt):
//		           with equal weights event 9 is the first validator's root in frames 2 and 3 and is elected Atropos
//		           of both, so the third block has nothing new to deliver
//	 9 cascade: a fixed 19-event DAG over 4 validators found by random search: with weights 3,3,2,2 the last event
//	            is a root of several frames at once; one of its earlier frame slots decides frame 1 and frame 2 is
//	            decided in the cascade that follows (re-processing of the known roots)
//
// 10 multislot: a fixed 14-event DAG over 4 validators found by random search: with weights 2,2,2,1 a root of
//
//	several frames arrives while an election is still open, and a later root looks up the vote of
//	its lower frame slot
//
// 11 sparse:   a fixed 7-event DAG over 3 validators found by random search: events with few parents, so that a merely
//
//	built candidate can touch exactly one older event that the real event does not reach
func vScript(kind, V, rounds int, seed uint32) []vScriptEv {
	if kind == 11 {
		return []vScriptEv{{0, -1, nil}, {0, 0, nil}, {1, -1, nil}, {2, -1, []int{1}}, {0, 1, []int{2}}, {0, 4, []int{3}}, {1, 2, []int{5}}}
	}
	if kind == 10 {
		return []vScriptEv{{3, -1, nil}, {1, -1, []int{0}}, {2, -1, []int{1}}, {0, -1, []int{1, 2, 0}}, {1, 1, []int{0}},
			{3, 0, []int{3, 4, 2}}, {0, 3, []int{4, 2, 5}}, {1, 4, []int{6, 2, 5}}, {0, 6, []int{7, 2}}, {2, 2, []int{8, 7, 5}},
			{1, 7, []int{9, 5}}, {2, 9, []int{5}}, {3, 5, []int{8, 10, 11}}, {0, 8, []int{10, 11}}}
	}
	if kind == 9 {
		return []vScriptEv{{1, -1, nil}, {2, -1, []int{0}}, {3, -1, []int{0}}, {3, 2, []int{0, 1}}, {1, 0, []int{3}},
			{0, -1, []int{4, 1, 3}}, {2, 1, []int{5}}, {3, 3, []int{5, 4, 6}}, {0, 5, []int{4, 6, 7}}, {2, 6, []int{8, 4, 7}},
			{3, 7, []int{8, 4, 9}}, {0, 8, []int{4, 9, 10}}, {3, 10, []int{11, 4, 9}}, {1, 4, []int{11, 9, 12}},
			{3, 12, []int{11}}, {1, 13, []int{11, 9, 14}}, {1, 15, []int{11, 9}}, {0, 11, []int{16, 9, 14}}, {2, 9, []int{17, 14}}}
	}
	if kind == 8 {
		return []vScriptEv{{0, -1, nil}, {1, -1, []int{0}}, {2, -1, []int{0, 1}}, {0, 0, []int{1, 2}}, {1, 1, []int{3, 2}},
			{2, 2, []int{3, 4}}, {3, -1, []int{3, 4, 5}}, {3, 6, []int{3, 5}}, {2, 5, []int{4, 7}}, {0, 3, []int{4, 8, 7}},
			{1, 4, []int{9, 8, 7}}, {0, 9, []int{10, 8}}, {3, 7, []int{11, 8}}, {2, 8, []int{11, 10, 12}},
			{3, 12, []int{11, 10, 13}}, {0, 11, []int{10, 13, 14}}, {3, 14, []int{15}}, {2, 13, []int{15, 10, 16}},
			{3, 16, []int{15, 10, 17}}, {0, 15, []int{17, 18}}, {3, 18, []int{19, 10, 17}}, {0, 19, []int{10, 17, 20}}}
	}
	var s []vScriptEv
	last := make([]int, V)    // latest event per validator (its own view: the branch it continues)
	shown := make([][]int, V) // shown[v][u]: which event of u validator v references next
	for v := range last {
		last[v] = -1
		shown[v] = make([]int, V)
		for u := range shown[v] {
			shown[v][u] = -1
		}
	}
	rnd := seed*2654435761 + 12345
	next := func(n int) int {
		rnd = rnd*1664525 + 1013904223
		return int((rnd >> 16) % uint32(n))
	}
	forked := false
	for r := 0; r < rounds; r++ {
		prev := append([]int{}, last...)
		for vv := 0; vv < V; vv++ {
			v := vv
			if kind == 7 {
				v = (vv + 1) % V // the first validator comes last in the round
				if v == 0 && r%int(seed) != int(seed)-1 {
					continue
				}
			}
			if kind == 2 && v == V-1 && r%3 != 0 {
				continue
			}
			if kind == 6 && v == 0 && r%3 != 0 {
				continue // 6 lagging-heavy: the HEAVIEST validator creates an event only every third round
			}
			ev := vScriptEv{creator: v, self: last[v]}
			switch kind {
			case 1:
				u := (v + 1) % V
				if prev[u] >= 0 {
					ev.others = append(ev.others, prev[u])
				}
			case 4:
				for u := 0; u < V; u++ {
					if u != v && prev[u] >= 0 && next(3) != 0 {
						ev.others = append(ev.others, prev[u])
					}
				}
			default:
				for u := 0; u < V; u++ {
					if u == v {
						continue
					}
					p := prev[u]
					if kind == 7 && v == 0 {
						p = last[u]
					}
					if (kind == 3 || kind == 5) && shown[v][u] >= 0 {
						p = shown[v][u]
						shown[v][u] = -1
					}
					if p >= 0 {
						ev.others = append(ev.others, p)
					}
				}
			}
			s = append(s, ev)
			last[v] = len(s) - 1
			if kind == 5 && v == V-1 && r == 0 && !forked {
				s = append(s, vScriptEv{creator: v, self: -1}) // y
				last[v] = len(s) - 1
				s = append(s, vScriptEv{creator: v, self: -1}) // z
				shown[1][v] = len(s) - 1
				forked = true
			}
			if kind == 3 && v == V-1 && r == 1 && !forked {
				// the fork: a second event on the same self-parent; validator 0 is shown the twin
				twin := vScriptEv{creator: v, self: ev.self, others: append([]int{}, ev.others...)}
				if len(twin.others) > 1 {
					twin.others = twin.others[:len(twin.others)-1] // make it a different event
				}
				s = append(s, twin)
				shown[0][v] = len(s) - 1
				forked = true
			}
		}
	}
	return s
}

type vDag struct {
	script []vScriptEv
	evs    []*dag.MutableBaseEvent
	anc    [][]bool
	V      int
}

func (d *vDag) idOf(i int) hash.Event { return d.evs[i].ID() }

func (d *vDag) indexOf(h hash.Event) int {
	for i, e := range d.evs {
		if e != nil && e.ID() == h {
			return i
		}
	}
	return -1
}

// materialise creates event i (epoch given), with seq / Lamport / parents from the script.
func (d *vDag) materialise(i int, epoch idx.Epoch) *dag.MutableBaseEvent {
	sc := d.script[i]
	e := &dag.MutableBaseEvent{}
	e.SetEpoch(epoch)
	e.SetCreator(idx.ValidatorID(sc.creator + 1))
	var parents hash.Events
	var lamport idx.Lamport
	seq := idx.Event(1)
	anc := make([]bool, len(d.script))
	anc[i] = true
	add := func(p int) {
		parents = append(parents, d.evs[p].ID())
		if d.evs[p].Lamport() > lamport {
			lamport = d.evs[p].Lamport()
		}
		for a, ok := range d.anc[p] {
			if ok {
				anc[a] = true
			}
		}
	}
	if sc.self >= 0 {
		add(sc.self)
		seq = d.evs[sc.self].Seq() + 1
	}
	for _, p := range sc.others {
		add(p)
	}
	e.SetSeq(seq)
	e.SetLamport(lamport + 1)
	e.SetParents(parents)
	d.anc[i] = anc
	return e
}

func vTail(i int) (t [24]byte) {
	t[0], t[1], t[23] = byte(i>>8), byte(i), 0x5a
	return
}

// ---------------------------------------------------------------------
// naive reference consensus, written from the statements of C04/C05/C10
// (ancestor sets, no vector clocks, no caches, no incremental election state)

type vRef struct {
	d      *vDag
	w      []pos.Weight
	q      pos.Weight
	frames []idx.Frame
	n      int   // number of events known so far
	order  []int // validators (script indices) in canonical order; nil: index order
}

func (r *vRef) forkIn(a, v int) bool {
	for x := 0; x < r.n; x++ {
		for y := x + 1; y < r.n; y++ {
			if r.d.anc[a][x] && r.d.anc[a][y] && r.d.script[x].creator == v && r.d.script[y].creator == v &&
				r.d.evs[x].Seq() == r.d.evs[y].Seq() {
				return true
			}
		}
	}
	return false
}

func (r *vRef) fc(a, b int) bool {
	if r.forkIn(a, r.d.script[b].creator) {
		return false
	}
	var w pos.Weight
	for v := 0; v < r.d.V; v++ {
		if r.forkIn(a, v) {
			continue
		}
		for x := 0; x < r.n; x++ {
			if r.d.anc[a][x] && r.d.script[x].creator == v && r.d.anc[x][b] {
				w += r.w[v]
				break
			}
		}
	}
	return w >= r.q
}

func (r *vRef) spf(i int) idx.Frame {
	if s := r.d.script[i].self; s >= 0 {
		return r.frames[s]
	}
	return 0
}

func (r *vRef) roots(f idx.Frame) []int {
	var res []int
	for i := 0; i < r.n; i++ {
		if r.spf(i) < f && f <= r.frames[i] {
			res = append(res, i)
		}
	}
	return res
}

// add computes the frame of event i (all earlier events are known)
func (r *vRef) add(i int) idx.Frame {
	r.n = i + 1
	spf := r.spf(i)
	f := spf
	for ; f < spf+100; f++ {
		seen := make([]bool, r.d.V)
		var w pos.Weight
		for _, rt := range r.roots(f) {
			c := r.d.script[rt].creator
			if rt != i && !seen[c] && r.fc(i, rt) {
				seen[c] = true
				w += r.w[c]
			}
		}
		if !(w >= r.q) {
			break
		}
	}
	if f == 0 {
		f = 1
	}
	r.frames[i] = f
	return f
}

type vRefVote struct {
	yes, decided bool
	obs          int
	set          bool
}

// decideAll decides as many frames as possible from all known events; returns the Atropos sequence.
func (r *vRef) decideAll() (res []int) {
	V := r.d.V
	for d := idx.Frame(1); ; d++ {
		// [frame slot][root][subject]: an event that is a root of several frames votes once per frame slot
		votesAt := map[idx.Frame][][]vRefVote{}
		decided := make([]vRefVote, V)
		atropos := -1
	frames:
		for f := d + 1; ; f++ {
			rts := r.roots(f)
			if len(rts) == 0 {
				break
			}
			votes := make([][]vRefVote, r.n)
			votesAt[f] = votes
			prevVotes := votesAt[f-1]
			for _, rt := range rts {
				var prev []int
				for _, y := range r.roots(f - 1) {
					if r.fc(rt, y) {
						prev = append(prev, y)
					}
				}
				votes[rt] = make([]vRefVote, V)
				for s := 0; s < V; s++ {
					if decided[s].set {
						continue
					}
					v := vRefVote{obs: -1, set: true}
					if f == d+1 {
						for _, y := range prev {
							if r.d.script[y].creator == s {
								v.yes, v.obs = true, y
							}
						}
					} else {
						var yw, nw pos.Weight
						for _, y := range prev {
							pv := prevVotes[y][s]
							if pv.yes {
								yw += r.w[r.d.script[y].creator]
								v.obs = pv.obs
							} else {
								nw += r.w[r.d.script[y].creator]
							}
						}
						v.yes = yw >= nw
						if !v.yes {
							v.obs = -1
						}
						v.decided = yw >= r.q || nw >= r.q
						if v.decided {
							decided[s] = v
						}
					}
					votes[rt][s] = v
				}
				for k := 0; k < V; k++ {
					s := k
					if r.order != nil {
						s = r.order[k]
					}
					if !decided[s].set {
						break
					}
					if decided[s].yes {
						atropos = decided[s].obs
						break frames
					}
				}
			}
		}
		if atropos < 0 {
			return
		}
		res = append(res, atropos)
	}
}

// ---------------------------------------------------------------------

func vFSWeights(V int, cheater int) (*pos.Validators, []pos.Weight) {
	sym.IntMode(true)
	wn := [...]string{"w0", "w1", "w2", "w3", "w4"}
	ids := make([]idx.ValidatorID, V)
	ws := make([]pos.Weight, V)
	var total uint64
	for i := 0; i < V; i++ {
		ids[i] = idx.ValidatorID(i + 1)
		ws[i] = pos.Weight(sym.U32(wn[i]))
		sym.Assume(ws[i] >= 1)
		if i > 0 {
			sym.Assume(ws[i-1] >= ws[i]) // canonical order = index order
		}
		total += uint64(ws[i])
	}
	sym.Assume(total <= 1<<31-1)
	if cheater >= 0 {
		sym.Assume(3*uint64(ws[cheater]) < total) // forking validators hold < 1/3
	}
	return pos.ArrayToValidators(ids, ws), ws
}

// run feeds the whole script to node 0 (frames come from its Build), checking C02/C03/C04/C10 on the way.
type vRun struct {
	d    *vDag
	n0   *vNode
	ref  *vRef
	vals *pos.Validators
	ws   []pos.Weight
}

func newVRun(kind, V, rounds int, seed uint32) *vRun {
	cheater := -1
	if kind == 3 || kind == 5 {
		cheater = V - 1
	}
	vals, ws := vFSWeights(V, cheater)
	script := vScript(kind, V, rounds, seed)
	d := &vDag{script: script, evs: make([]*dag.MutableBaseEvent, len(script)), anc: make([][]bool, len(script)), V: V}
	r := &vRun{d: d, vals: vals, ws: ws}
	r.n0 = newVNode(vals, nil, nil, nil)
	r.ref = &vRef{d: d, w: ws, q: vals.Quorum(), frames: make([]idx.Frame, len(script))}
	return r
}

// feed builds and processes event i on node 0.
func (r *vRun) feed(i int) {
	e := r.d.materialise(i, r.n0.store.GetEpoch())
	r.d.evs[i] = e
	sym.Assert(r.n0.lch.Build(e) == nil, "Build succeeds")
	e.SetID(vTail(i))
	r.n0.events[e.ID()] = e
	want := r.ref.add(i)
	sym.Assert(e.Frame() == want, "Build assigns the frame of the reference frame rule (C04/C10)")
	sym.Assert(r.n0.lch.Process(e) == nil, "an event that was built is accepted (C04)")
}

// checkBlocks compares the blocks of node n with the reference and checks C02 and C03.
func (r *vRun) checkBlocks(n *vNode) {
	want := r.ref.decideAll()
	sym.Assert(len(n.blocks) == len(want), "as many blocks as the reference decides (C10)")
	if len(n.blocks) != len(want) {
		return
	}
	delivered := make([]bool, len(r.d.script))
	for k, b := range n.blocks {
		a := want[k]
		sym.Assert(b.atropos == r.d.idOf(a), "Atropos equals the reference election's choice (C10)")
		sym.Assert(b.frame == idx.Frame(k+1), "blocks carry consecutive frame numbers from 1 (C02)")
		ai := r.d.indexOf(b.atropos)
		if ai < 0 {
			sym.Assert(false, "Atropos is a known event")
			continue
		}
		isRoot := false
		for _, rt := range r.ref.roots(b.frame) {
			if rt == ai {
				isRoot = true
			}
		}
		sym.Assert(isRoot, "the Atropos is a root of the block's frame (C02)")
		// C02: exactly the new ancestry, each once, parents never after children's delivery block
		var wantNew []int
		for x := 0; x < r.ref.n; x++ {
			if r.d.anc[ai][x] && !delivered[x] {
				wantNew = append(wantNew, x)
			}
		}
		sym.Assert(len(b.applied) == len(wantNew), "block delivers exactly the not-yet-delivered ancestry of its Atropos (count)")
		seen := make([]bool, len(r.d.script))
		for _, h := range b.applied {
			x := r.d.indexOf(h)
			ok := x >= 0 && r.d.anc[ai][x] && !delivered[x] && !seen[x]
			sym.Assert(ok, "delivered event is a new ancestor of the Atropos and is delivered once (C02)")
			if x >= 0 {
				seen[x] = true
			}
		}
		for _, x := range wantNew {
			delivered[x] = true
		}
		if len(wantNew) == 0 {
			sym.Reach("empty-block") // the Atropos was already delivered by an earlier block
		}
		// C03: cheaters = validators with two same-seq events in anc*(atropos), canonical order
		var wantCh []idx.ValidatorID
		for v := 0; v < r.d.V; v++ {
			if r.ref.forkIn(ai, v) {
				wantCh = append(wantCh, idx.ValidatorID(v+1))
			}
		}
		sym.Assert(len(b.cheaters) == len(wantCh), "cheater list has exactly the visible forkers (C03)")
		if len(b.cheaters) == len(wantCh) {
			for j := range wantCh {
				sym.Assert(b.cheaters[j] == wantCh[j], "cheaters in canonical validator order (C03)")
			}
		}
		if len(wantCh) > 0 {
			sym.Reach("cheater-listed")
		}
	}
	if len(want) > 0 {
		sym.Reach("block-decided")
	}
	if len(want) > 1 {
		sym.Reach("two-blocks")
	}
}

// otherOrder: another parents-first order (always the highest-numbered ready event).
func (r *vRun) otherOrder() []int {
	N := len(r.d.script)
	done := make([]bool, N)
	var order []int
	for len(order) < N {
		for i := N - 1; i >= 0; i-- {
			if done[i] {
				continue
			}
			ready := true
			if s := r.d.script[i].self; s >= 0 && !done[s] {
				ready = false
			}
			for _, p := range r.d.script[i].others {
				ready = ready && done[p]
			}
			if ready {
				done[i] = true
				order = append(order, i)
				break
			}
		}
	}
	return order
}

func sameBlocks(a, b []vBlock) bool {
	if len(a) != len(b) {
		return false
	}
	for i := range a {
		if a[i].epoch != b[i].epoch || a[i].frame != b[i].frame || a[i].atropos != b[i].atropos || len(a[i].cheaters) != len(b[i].cheaters) {
			return false
		}
		for j := range a[i].cheaters {
			if a[i].cheaters[j] != b[i].cheaters[j] {
				return false
			}
		}
	}
	return true
}

// verifFS: C01 + C02 + C03 + C10 on one script.
func verifFS(kind, V, rounds int, seed uint32) {
	r := newVRun(kind, V, rounds, seed)
	for i := range r.d.script {
		r.feed(i)
	}
	r.checkBlocks(r.n0)
	// C01: a second instance, other parents-first order, same genesis
	n1 := newVNode(r.vals, nil, nil, nil)
	for _, i := range r.otherOrder() {
		e := r.d.evs[i]
		n1.events[e.ID()] = e
		sym.Assert(n1.lch.Process(e) == nil, "every valid event is accepted in any parents-first order (C01)")
	}
	sym.Assert(sameBlocks(r.n0.blocks, n1.blocks), "both instances emit identical block sequences (C01)")
	r.checkBlocks(n1)
	sym.Reach("fs")
}

func VerifH_FS_meshV3()     { verifFS(0, 3, 5, 1) }
func VerifH_FS_chainV3()    { verifFS(1, 3, 9, 1) }
func VerifH_FS_laggingV3()  { verifFS(2, 3, 7, 1) }
func VerifH_FS_forkV4()     { verifFS(3, 4, 8, 1) }
func VerifH_FS_forkV3()     { verifFS(3, 3, 8, 1) }
func VerifH_FS_lcgV3()      { verifFS(4, 3, 7, 7) }
func VerifH_FS_lagheavyV3() { verifFS(6, 3, 10, 1) }
func VerifH_FS_lagheavyV4() { verifFS(6, 4, 10, 1) }
func VerifH_FS_twiceV4()    { verifFS(8, 4, 0, 0) }
func VerifH_FS_tripleV3()   { verifFS(5, 3, 8, 1) }
func VerifH_FS_tripleV4()   { verifFS(5, 4, 7, 1) }
func VerifH_FS_meshV4()     { verifFS(0, 4, 5, 1) }
func VerifH_FS_lcgV4()      { verifFS(4, 4, 7, 3) }

func VerifH_FS_cascadeV4()   { verifFS(9, 4, 0, 1) }
func VerifH_FS_multislotV4() { verifFS(10, 4, 0, 1) }
