package abft

import (
	"github.com/Fantom-foundation/lachesis-base/hash"
	"github.com/Fantom-foundation/lachesis-base/inter/dag"
	"github.com/Fantom-foundation/lachesis-base/inter/idx"
	"github.com/Fantom-foundation/lachesis-base/zzverif/sym"
)

// VerifH_C02_confirm: the delivery step itself (real Lachesis.confirmEvents over a real Store) for two blocks
// with ARBITRARY frame numbers f1 < f2 (an epoch may run for any number of frames): a 5-event DAG
//
//	a1 <- b1 <- a2 <- b2      c1 (parent of b2 only)
//
// block f1 with Atropos b1 delivers {a1, b1}; block f2 with Atropos b2 delivers exactly {a2, b2, c1}, each once.
func VerifH_C02_confirm() {
	store := verifStore(100, 10)
	store.cache.LastDecidedState = &LastDecidedState{LastDecidedFrame: 0}
	events := vEvents{}
	mk := func(tag byte, creator idx.ValidatorID, seq idx.Event, parents ...hash.Event) *dag.MutableBaseEvent {
		e := &dag.MutableBaseEvent{}
		e.SetEpoch(1)
		e.SetCreator(creator)
		e.SetSeq(seq)
		e.SetLamport(idx.Lamport(tag))
		e.SetParents(parents)
		e.SetID([24]byte{tag})
		events[e.ID()] = e
		return e
	}
	a1 := mk(1, 1, 1)
	b1 := mk(2, 2, 1, a1.ID())
	a2 := mk(3, 1, 2, a1.ID(), b1.ID())
	c1 := mk(4, 3, 1)
	b2 := mk(5, 2, 2, b1.ID(), a2.ID(), c1.ID())
	l := NewLachesis(store, events, vClockStub{make([]bool, 3)}, func(err error) { panic(err) }, LiteConfig())
	f1, f2 := idx.Frame(sym.U32("f1")), idx.Frame(sym.U32("f2"))
	sym.Assume(f1 >= 1 && f1 < f2)
	count := map[hash.Event]int{}
	deliver := func(e dag.Event) { count[e.ID()]++ }
	sym.Assert(l.confirmEvents(f1, b1.ID(), deliver) == nil, "confirmEvents succeeds")
	sym.Assert(count[a1.ID()] == 1 && count[b1.ID()] == 1 && len(count) == 2, "the first block delivers the ancestry of its Atropos, each event once")
	sym.Assert(store.GetEventConfirmedOn(a1.ID()) == f1 && store.GetEventConfirmedOn(b1.ID()) == f1, "delivered events are marked with the frame of their block")
	sym.Assert(store.GetEventConfirmedOn(a2.ID()) == 0 && store.GetEventConfirmedOn(c1.ID()) == 0, "events not yet delivered carry no mark")
	count2 := map[hash.Event]int{}
	sym.Assert(l.confirmEvents(f2, b2.ID(), func(e dag.Event) { count2[e.ID()]++ }) == nil, "confirmEvents succeeds")
	sym.Assert(count2[a2.ID()] == 1 && count2[b2.ID()] == 1 && count2[c1.ID()] == 1 && len(count2) == 3, "block delivers exactly the not-yet-delivered ancestry of its Atropos, each event once (C02)")
	// the same Atropos again (an Atropos elected for a second frame): nothing is delivered
	count3 := map[hash.Event]int{}
	sym.Assert(l.confirmEvents(f2+1, b2.ID(), func(e dag.Event) { count3[e.ID()]++ }) == nil, "confirmEvents succeeds")
	sym.Assert(len(count3) == 0, "an Atropos whose ancestry was delivered before delivers nothing (C02)")
	sym.Reach("confirm")
}
