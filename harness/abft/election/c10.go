package election

import (
	"github.com/Fantom-foundation/lachesis-base/hash"
	"github.com/Fantom-foundation/lachesis-base/inter/idx"
	"github.com/Fantom-foundation/lachesis-base/inter/pos"
	"github.com/Fantom-foundation/lachesis-base/zzverif/sym"
)

// One inductive step of the election from an ARBITRARY pre-state.
//
// V validators (IDs 1..V, symbolic weights in canonical order), frame D is being
// decided, a new root of frame D+r arrives.  The roots of the previous frame
// (one per validator plus an optional fork root), the votes stored for them
// (yes / carried root), the set of already decided subjects and the new root's
// observation relation are all symbolic.  The reference below is written from
// the statement of the property, with plain arrays.

const vD = idx.Frame(5)

type vRoot struct {
	id  hash.Event
	val int // validator index 0..V-1
}

func vHash(tag, a, b byte) (h hash.Event) {
	h[0], h[1], h[2] = tag, a, b
	return
}

type vRefVote struct {
	yes, decided bool
	root         hash.Event
}

var (
	vNamesW    = [...]string{"w0", "w1", "w2", "w3"}
	vNamesObs  = [...]string{"obs0", "obs1", "obs2", "obs3", "obs4"}
	vNamesDec  = [...]string{"dec0", "dec1", "dec2", "dec3"}
	vNamesDecY = [...]string{"decYes0", "decYes1", "decYes2", "decYes3"}
	vNamesDecF = [...]string{"decFork0", "decFork1", "decFork2", "decFork3"}
	vNamesYes  = [...][4]string{{"yes0_0", "yes0_1", "yes0_2", "yes0_3"}, {"yes1_0", "yes1_1", "yes1_2", "yes1_3"}, {"yes2_0", "yes2_1", "yes2_2", "yes2_3"}, {"yes3_0", "yes3_1", "yes3_2", "yes3_3"}, {"yes4_0", "yes4_1", "yes4_2", "yes4_3"}}
	vNamesPick = [...][4]string{{"pick0_0", "pick0_1", "pick0_2", "pick0_3"}, {"pick1_0", "pick1_1", "pick1_2", "pick1_3"}, {"pick2_0", "pick2_1", "pick2_2", "pick2_3"}, {"pick3_0", "pick3_1", "pick3_2", "pick3_3"}, {"pick4_0", "pick4_1", "pick4_2", "pick4_3"}}
)

func verifElectionStep(V int, round int, withForkD, withForkPrev bool, missingVote bool, freeDec int, freeNew bool) {
	sym.IntMode(true) // weights as mathematical integers; every sum is checked not to wrap
	// ---- validators ----
	ids := make([]idx.ValidatorID, V)
	ws := make([]pos.Weight, V)
	var total uint64
	for i := 0; i < V; i++ {
		ids[i] = idx.ValidatorID(i + 1)
		ws[i] = pos.Weight(sym.U32(vNamesW[i]))
		sym.Assume(ws[i] >= 1)
		if i > 0 {
			sym.Assume(ws[i-1] >= ws[i]) // canonical order = index order
		}
		total += uint64(ws[i])
	}
	sym.Assume(total <= 1<<31-1)
	vals := pos.ArrayToValidators(ids, ws)
	Q := vals.Quorum() // same 32-bit term as the implementation computes

	// ---- roots of the frame being decided (subject candidates) ----
	rootD := make([]hash.Event, V)
	for v := 0; v < V; v++ {
		rootD[v] = vHash('D', byte(v), 0)
	}
	forkVal := -1
	var forkD hash.Event
	if withForkD {
		forkVal = sym.Choice("forkDval", V)
		forkD = vHash('D', byte(forkVal), 1)
	}
	candidate := func(s int, pickFork bool) hash.Event {
		if s == forkVal {
			// symbolic choice between the two fork roots of subject s
			var r hash.Event
			for i := range r {
				r[i] = byte(sym.Ite(pickFork, uint64(forkD[i]), uint64(rootD[s][i])))
			}
			return r
		}
		return rootD[s]
	}

	// ---- roots of the previous frame ----
	var prev []vRoot
	prevFrame := vD + idx.Frame(round) - 1
	if round == 1 {
		for v := 0; v < V; v++ {
			prev = append(prev, vRoot{rootD[v], v})
		}
		if withForkD {
			prev = append(prev, vRoot{forkD, forkVal})
		}
	} else {
		for v := 0; v < V; v++ {
			prev = append(prev, vRoot{vHash('P', byte(v), 0), v})
		}
		if withForkPrev {
			pv := sym.Choice("forkPval", V)
			prev = append(prev, vRoot{vHash('P', byte(pv), 1), pv})
		}
	}
	slotOf := func(r vRoot) RootAndSlot {
		return RootAndSlot{ID: r.id, Slot: Slot{Frame: prevFrame, Validator: ids[r.val]}}
	}

	// ---- observation relation of the new root (symbolic) ----
	obs := make([]bool, len(prev))
	for i := range prev {
		obs[i] = sym.Bool(vNamesObs[i])
	}
	newVal := 0
	if freeNew {
		newVal = sym.Choice("newVal", V)
	}
	newRoot := RootAndSlot{ID: vHash('N', byte(newVal), 0), Slot: Slot{Frame: vD + idx.Frame(round), Validator: ids[newVal]}}

	el := New(vals, vD,
		func(a, b hash.Event) bool {
			sym.Assert(a == newRoot.ID, "forkless cause is asked from the new root")
			for i := range prev {
				if prev[i].id == b {
					return obs[i]
				}
			}
			panic("observe: unknown root")
		},
		func(f idx.Frame) []RootAndSlot {
			sym.Assert(f == prevFrame, "roots are requested for the previous frame")
			res := make([]RootAndSlot, len(prev))
			for i := range prev {
				res[i] = slotOf(prev[i])
			}
			return res
		})

	// ---- arbitrary pre-state ----
	decided := make([]vRefVote, V) // decided[s].decided: subject s already decided
	for s := 0; s < V; s++ {
		if s < freeDec && sym.Bool(vNamesDec[s]) {
			y := sym.Bool(vNamesDecY[s])
			v := voteValue{decided: true, yes: y}
			if y {
				v.observedRoot = candidate(s, sym.Bool(vNamesDecF[s]))
			}
			el.decidedRoots[ids[s]] = v
			decided[s] = vRefVote{yes: y, decided: true, root: v.observedRoot}
		}
	}
	// stored votes of the previous-frame roots (only meaningful for round >= 2)
	stored := make([][]vRefVote, len(prev))
	missI, missS := -1, -1
	if missingVote && round >= 2 {
		missI, missS = sym.Choice("missRoot", len(prev)), sym.Choice("missSubject", V)
	}
	if round >= 2 {
		for i := range prev {
			stored[i] = make([]vRefVote, V)
			for s := 0; s < V; s++ {
				y := sym.Bool(vNamesYes[i][s])
				v := voteValue{yes: y}
				if y {
					v.observedRoot = candidate(s, sym.Bool(vNamesPick[i][s]))
				}
				stored[i][s] = vRefVote{yes: y, root: v.observedRoot}
				if i == missI && s == missS {
					continue
				}
				el.votes[voteID{fromRoot: slotOf(prev[i]), forValidator: ids[s]}] = v
			}
		}
	}

	// ---- reference: Atropos choice over a decided map ----
	refChoose := func(dec []vRefVote) (has bool, atropos hash.Event, allNo bool) {
		for s := 0; s < V; s++ { // canonical order
			if !dec[s].decided {
				return false, hash.Event{}, false
			}
			if dec[s].yes {
				return true, dec[s].root, false
			}
		}
		return false, hash.Event{}, true
	}

	res, err := el.ProcessRoot(newRoot)

	preHas, preAtropos, preAllNo := refChoose(decided)
	if preHas || preAllNo {
		sym.Reach("already-decided")
		if preAllNo {
			sym.Assert(err != nil && res == nil, "all subjects decided no is reported as an error")
		} else {
			sym.Assert(err == nil && res != nil && res.Frame == vD && res.Atropos == preAtropos, "a decided election keeps returning its Atropos")
		}
		return
	}

	if round == 1 {
		// at most one observed root per slot (an event cannot forkless-cause both sides of a fork)
		if withForkD {
			sym.Assume(!(obs[forkVal] && obs[V]))
		}
		sym.Assert(err == nil && res == nil, "first round never decides")
		for s := 0; s < V; s++ {
			if decided[s].decided {
				continue
			}
			want := vRefVote{}
			for i := range prev {
				if prev[i].val == s && obs[i] {
					want.yes, want.root = true, prev[i].id
				}
			}
			got, ok := el.votes[voteID{fromRoot: newRoot, forValidator: ids[s]}]
			sym.Assert(ok, "first-round vote is stored")
			sym.Assert(got.yes == want.yes && !got.decided && got.observedRoot == want.root, "first-round vote: yes iff the new root forkless-causes a root of the subject")
		}
		sym.Reach("round1")
		return
	}

	// ---- later rounds ----
	// preconditions of a well-formed step
	var obsW pos.Weight // 32-bit sums cannot wrap: total <= 2^31-1 (C11)
	twoSameSlot := false
	seen := make([]bool, V)
	for i := range prev {
		if obs[i] {
			if seen[prev[i].val] {
				twoSameSlot = true
			} else {
				seen[prev[i].val] = true
				obsW += ws[prev[i].val]
			}
		}
	}
	noQuorum := obsW < Q
	missing := false
	inconsistent := false
	for s := 0; s < V; s++ {
		if decided[s].decided {
			continue
		}
		var first *hash.Event
		for i := range prev {
			if !obs[i] {
				continue
			}
			if i == missI && s == missS {
				missing = true
			}
			if stored[i][s].yes {
				if first != nil && *first != stored[i][s].root {
					inconsistent = true
				}
				r := stored[i][s].root
				first = &r
			}
		}
	}
	illFormed := noQuorum || twoSameSlot || missing || inconsistent
	if illFormed {
		sym.Assert(err != nil, "an ill-formed step (no quorum observed, two roots of one slot, missing vote, conflicting fork votes) is an error")
		sym.Reach("ill-formed")
		return
	}

	// reference votes: weighted majority, tie = yes; decided when one side holds a quorum
	newDec := append([]vRefVote{}, decided...)
	for s := 0; s < V; s++ {
		if decided[s].decided {
			_, ok := el.votes[voteID{fromRoot: newRoot, forValidator: ids[s]}]
			sym.Assert(!ok, "no vote is cast for an already decided subject")
			continue
		}
		var yesW, noW pos.Weight
		var root hash.Event
		for i := range prev {
			if !obs[i] {
				continue
			}
			if stored[i][s].yes {
				yesW += ws[prev[i].val]
				root = stored[i][s].root
			} else {
				noW += ws[prev[i].val]
			}
		}
		want := vRefVote{yes: yesW >= noW, decided: yesW >= Q || noW >= Q}
		if want.yes {
			want.root = root
		}
		got, ok := el.votes[voteID{fromRoot: newRoot, forValidator: ids[s]}]
		sym.Assert(ok, "vote is stored for every undecided subject")
		sym.Assert(got.yes == want.yes, "vote = weighted majority of observed previous votes, tie counts as yes")
		sym.Assert(got.decided == want.decided, "decided exactly when yes-weight or no-weight reaches the quorum")
		sym.Assert(got.observedRoot == want.root, "a yes vote carries the root voted for")
		if want.decided {
			newDec[s] = want
			sym.Reach("decided-now")
		}
		if yesW == noW {
			sym.Reach("tie")
		}
	}
	for s := 0; s < V; s++ {
		got, ok := el.decidedRoots[ids[s]]
		sym.Assert(ok == newDec[s].decided, "decided set matches the reference")
		if ok && newDec[s].decided {
			sym.Assert(got.yes == newDec[s].yes && got.observedRoot == newDec[s].root, "decided value matches the reference")
		}
	}
	has, atropos, allNo := refChoose(newDec)
	switch {
	case allNo:
		sym.Assert(err != nil && res == nil, "every subject decided no is reported as an error")
		sym.Reach("all-no")
	case has:
		sym.Assert(err == nil, "a well-formed step returns no error")
		sym.Assert(res != nil && res.Frame == vD && res.Atropos == atropos, "Atropos = root of the first validator in canonical order decided yes with all earlier decided no")
		sym.Reach("atropos")
	default:
		sym.Assert(err == nil && res == nil, "no Atropos while an earlier validator is undecided")
		sym.Reach("undecided")
	}
}

// quick: V=3
func VerifH_C10_round1()     { verifElectionStep(3, 1, true, false, false, 3, true) }
func VerifH_C10_round2()     { verifElectionStep(3, 2, false, false, false, 1, false) }
func VerifH_C10_round2fork() { verifElectionStep(3, 2, true, true, false, 0, false) }
func VerifH_C10_round3miss() { verifElectionStep(3, 3, false, false, true, 0, false) }

// thorough: all pre-decided subsets, V=4
func VerifH_C10_round2full() { verifElectionStep(3, 2, false, false, false, 3, true) }
func VerifH_C10_round2V4()   { verifElectionStep(4, 2, false, false, false, 1, false) }
