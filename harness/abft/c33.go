package abft

import (
	"github.com/Fantom-foundation/lachesis-base/abft/election"
	"github.com/Fantom-foundation/lachesis-base/hash"
	"github.com/Fantom-foundation/lachesis-base/inter/dag"
	"github.com/Fantom-foundation/lachesis-base/inter/idx"
	"github.com/Fantom-foundation/lachesis-base/kvdb"
	"github.com/Fantom-foundation/lachesis-base/kvdb/memorydb"
	"github.com/Fantom-foundation/lachesis-base/zzverif/sym"
)

func verifStore(rootsNum uint, rootsFrames int) *Store {
	getDb := func(epoch idx.Epoch) kvdb.Store { return memorydb.New() }
	crit := func(err error) { panic(err) }
	s := NewStore(memorydb.New(), getDb, crit, StoreConfig{StoreCacheConfig{RootsNum: rootsNum, RootsFrames: rootsFrames}})
	if err := s.openEpochDB(1); err != nil {
		panic(err)
	}
	return s
}

type vRootRec struct {
	frame   idx.Frame
	creator idx.ValidatorID
	id      hash.Event
}

var (
	vc33Op   = [...]string{"op0", "op1", "op2", "op3", "op4", "op5"}
	vc33Spf  = [...]string{"spf0", "spf1", "spf2", "spf3", "spf4", "spf5"}
	vc33Fr   = [...]string{"frame0", "frame1", "frame2", "frame3", "frame4", "frame5"}
	vc33Cr   = [...]string{"creator0", "creator1", "creator2", "creator3", "creator4", "creator5"}
	vc33Tag  = [...]string{"tag0", "tag1", "tag2", "tag3", "tag4", "tag5"}
	vc33Same = [...]string{"same0", "same1", "same2", "same3", "same4", "same5"}
	vc33Qf   = [...]string{"qframe0", "qframe1", "qframe2", "qframe3", "qframe4", "qframe5"}
)

// verifC33: arbitrary sequence of nOps operations {AddRoot, GetFrameRoots, epoch switch}
// on a real Store (memorydb + table + simplewlru) with arbitrary cache limits.
func verifC33(nOps int) {
	// cache limits are symbolic: the cache's own comparisons split them into regions
	rn, rf := sym.U8("rootsNum"), sym.U8("rootsFrames")
	sym.Assume(rn <= 3 && rf <= 3)
	s := verifStore(uint(rn), int(rf))
	var model []vRootRec
	epoch := idx.Epoch(1)
	for i := 0; i < nOps; i++ {
		switch sym.Choice(vc33Op[i], 3) {
		case 0: // register a root for frames spf+1..frame
			spf := idx.Frame(sym.Choice(vc33Spf[i], 2))            // 0..1
			frame := spf + 1 + idx.Frame(sym.Choice(vc33Fr[i], 2)) // spf+1..spf+2
			creator := idx.ValidatorID(1 + sym.Choice(vc33Cr[i], 2))
			e := &dag.MutableBaseEvent{}
			e.SetEpoch(epoch)
			e.SetFrame(frame)
			e.SetCreator(creator)
			e.SetLamport(idx.Lamport(i + 1))
			var tail [24]byte
			tail[0] = sym.U8(vc33Tag[i])
			e.SetID(tail)
			s.AddRoot(spf, e)
			for f := spf + 1; f <= frame; f++ {
				dup := false
				for _, r := range model {
					if r.frame == f && r.creator == creator && r.id == e.ID() {
						dup = true
					}
				}
				if !dup {
					model = append(model, vRootRec{f, creator, e.ID()})
				}
			}
			sym.Reach("add")
		case 1: // query
			verifC33Query(s, model, idx.Frame(1+sym.Choice(vc33Qf[i], 3)))
			sym.Reach("query")
		case 2: // epoch switch: to the next epoch, or a reset INTO THE SAME epoch number (Orderer.Reset allows it)
			if sym.Choice(vc33Same[i], 2) == 0 {
				epoch++
			} else {
				sym.Reach("same-epoch-reset")
			}
			if err := s.dropEpochDB(); err != nil {
				panic(err)
			}
			if err := s.openEpochDB(epoch); err != nil {
				panic(err)
			}
			model = nil
			sym.Reach("epoch")
		}
	}
	// final: every frame is queried
	for f := idx.Frame(1); f <= 3; f++ {
		verifC33Query(s, model, f)
	}
}

func verifC33Query(s *Store, model []vRootRec, f idx.Frame) {
	got := s.GetFrameRoots(f)
	var want []vRootRec
	for _, r := range model {
		if r.frame == f {
			want = append(want, r)
		}
	}
	sym.Assert(len(got) == len(want), "GetFrameRoots returns as many roots as were registered for the frame")
	if len(got) != len(want) {
		return
	}
	// same set, with frame and creator as registered (order is the store's business)
	for _, w := range want {
		found := false
		for _, g := range got {
			found = sym.Or(found, sym.And(g.ID == w.id, sym.And(g.Slot.Validator == w.creator, g.Slot.Frame == f)))
		}
		sym.Assert(found, "every registered root is returned with its frame and creator")
	}
	var _ election.RootAndSlot
}

func VerifH_C33_ops2() { verifC33(2) }
func VerifH_C33_ops3() { verifC33(3) }
func VerifH_C33_ops4() { verifC33(4) }
func VerifH_C33_ops5() { verifC33(5) }
