package table

import (
	"bytes"

	"github.com/Fantom-foundation/lachesis-base/kvdb"
	"github.com/Fantom-foundation/lachesis-base/zzverif/sym"
	"github.com/Fantom-foundation/lachesis-base/zzverif/symkv"
	"github.com/Fantom-foundation/lachesis-base/zzverif/vstore"
)

func vNum(b []byte) (n uint64) {
	for _, x := range b {
		n = n<<8 | uint64(x)
	}
	return
}

// VerifH_C24_prefixfuncs: prefixed/noPrefix/incPrefix for every prefix of 0-3 bytes and key of 0-2 bytes.
func VerifH_C24_prefixfuncs() {
	p := symkv.Bytes("p", 0, 3)
	k := symkv.Bytes("k", 0, 2)
	pk := prefixed(k, p)
	sym.Assert(len(pk) == len(p)+len(k) && bytes.HasPrefix(pk, p), "prefixed key starts with the prefix")
	sym.Assert(bytes.Equal(noPrefix(pk, p), k), "noPrefix inverts prefixed")
	inc := incPrefix(p)
	allFF := true
	for _, x := range p {
		allFF = sym.And(allFF, x == 0xff)
	}
	if len(p) == 0 {
		sym.Assert(inc == nil, "incPrefix of the empty prefix is nil (no upper bound)")
		sym.Reach("empty")
		return
	}
	sym.Assert(sym.Iff(inc == nil, allFF), "incPrefix is nil exactly for all-0xff prefixes")
	if inc != nil {
		sym.Reach("inc")
		sym.Assert(len(inc) == len(p), "incPrefix keeps the length")
		if len(inc) == len(p) {
			// as big-endian numbers of equal length inc = p+1: the least string above every p||s
			sym.Assert(vNum(inc) == vNum(p)+1, "incPrefix is the least upper bound of the keys with the prefix")
			sym.Assert(bytes.Compare(pk, inc) < 0, "every prefixed key is below incPrefix")
		}
	} else {
		sym.Reach("allff")
	}
}

// VerifH_C24_compact: compacting a whole table asks the underlying store for [p, incPrefix(p)).
func VerifH_C24_compact() {
	p := symkv.Bytes("p", 1, 2)
	u := vstore.New()
	t := New(u, p)
	sym.Assert(t.Compact(nil, nil) == nil, "Compact succeeds")
	sym.Assert(len(u.Compacts) == 1, "one underlying Compact call")
	c := u.Compacts[0]
	sym.Assert(bytes.Equal(c[0], p), "range starts at the table prefix")
	allFF := true
	for _, x := range p {
		allFF = sym.And(allFF, x == 0xff)
	}
	sym.Assert(sym.Iff(c[1] == nil, allFF), "open-ended range only when no key can exceed the prefix")
	if c[1] != nil {
		sym.Assert(len(c[1]) == len(p) && vNum(c[1]) == vNum(p)+1, "range ends at the least key above the table")
	}
	// explicit bounds are translated into the table's key space
	s, l := symkv.Bytes("s", 0, 1), symkv.Bytes("l", 1, 1)
	t.Compact(s, l)
	c = u.Compacts[1]
	sym.Assert(bytes.Equal(c[0], append(append([]byte{}, p...), s...)) && bytes.Equal(c[1], append(append([]byte{}, p...), l...)), "explicit compaction bounds are prefixed")
	sym.Reach("compact")
}

// view of the underlying map through prefix p (prefix removed)
func vView(m *vstore.Map, p []byte) *vstore.Map {
	r := &vstore.Map{}
	for _, e := range m.Pairs {
		if bytes.HasPrefix(e.K, p) {
			r.Set(e.K[len(p):], e.V)
		}
	}
	return r
}

type vT struct {
	u      *vstore.Store
	t1, t2 *Table
	p1, p2 []byte
	buf    []byte
}

func newVT() *vT {
	h := &vT{u: vstore.New()}
	h.p1, h.p2 = symkv.Bytes("p1", 1, 2), symkv.Bytes("p2", 1, 2)
	// one arbitrary pre-existing entry in the underlying store (may or may not belong to either table)
	h.u.M.Set(symkv.Bytes("uk", 1, 3), []byte{1})
	// the tables get their prefixes as two slices cut from ONE buffer with spare capacity (as a caller
	// may well pass them): the tables must treat the prefix as read-only; h.p1 / h.p2 stay pristine copies
	h.buf = make([]byte, 0, 16)
	h.buf = append(append(h.buf, h.p1...), h.p2...)
	h.t1, h.t2 = New(h.u, h.buf[:len(h.p1)]), New(h.u, h.buf[len(h.p1):len(h.p1)+len(h.p2)])
	return h
}

// the caller's prefix buffer still holds p1||p2
func (h *vT) bufIntact() bool {
	return bytes.Equal(h.buf[:len(h.p1)+len(h.p2)], append(append([]byte{}, h.p1...), h.p2...))
}

func (h *vT) disjoint() bool {
	return sym.And(sym.Not(bytes.HasPrefix(h.p1, h.p2)), sym.Not(bytes.HasPrefix(h.p2, h.p1)))
}

// one arbitrary write through table 1; returns the expected underlying content
func (h *vT) write() *vstore.Map {
	want := h.u.M.Copy()
	k := symkv.Bytes("k", 0, 1) // tables accept the empty key
	v := symkv.Bytes("v", 0, 1)
	full := append(append([]byte{}, h.p1...), k...)
	switch sym.Choice("op", 4) {
	case 0:
		sym.Assert(h.t1.Put(k, v) == nil, "Put")
		want.Set(full, v)
	case 1:
		sym.Assert(h.t1.Delete(k) == nil, "Delete")
		want.Del(full)
	case 2:
		b := h.t1.NewBatch()
		b.Put(k, v)
		sym.Assert(b.ValueSize() == len(full)+len(v), "batch size counts the prefixed key")
		sym.Assert(b.Write() == nil, "batch Write")
		want.Set(full, v)
	case 3:
		// replay of a table batch into another writer yields un-prefixed keys
		b := h.t1.NewBatch()
		b.Put(k, v)
		b.Delete(append([]byte{}, k...))
		rec := vstore.New()
		rec.M.Set([]byte("zz"), []byte{2})
		sym.Assert(b.Replay(rec) == nil, "Replay")
		has, _ := rec.Has(k)
		sym.Assert(!has && len(rec.M.Pairs) == 1, "Replay strips the table prefix and keeps order")
		b.Reset()
		sym.Assert(b.ValueSize() == 0, "Reset")
		b.Put(k, v)
		b.Write()
		want.Set(full, v)
	}
	return want
}

// VerifH_C24_write: a write through table 1 touches exactly the key p1||k of the
// underlying store, and table 2 (prefix unrelated) does not observe it.
func VerifH_C24_write() {
	h := newVT()
	before2 := vView(h.u.M, h.p2)
	want := h.write()
	sym.Assert(symkv.EqPairs(h.u.M.Range(nil, nil), want.Range(nil, nil)), "a table write touches only its own prefixed key")
	after2 := vView(h.u.M, h.p2)
	same := symkv.EqPairs(before2.Range(nil, nil), after2.Range(nil, nil))
	sym.Assert(sym.Implies(h.disjoint(), same), "tables with unrelated prefixes do not observe each other's writes")
	got2 := vstore.Collect(h.t2.NewIterator(nil, nil))
	sym.Assert(symkv.EqPairs(got2, after2.Range(nil, nil)), "table 2 iterates its own part of the store")
	sym.Assert(h.bufIntact(), "a table never writes into the prefix slice it was given")
	sym.Reach("write")
}

// VerifH_C24_read: reads, iteration (itPrefix + start) and snapshots through table 1 equal
// the prefix-restricted, prefix-stripped view of the underlying store.
func VerifH_C24_read() {
	h := newVT()
	h.write()
	view := vView(h.u.M, h.p1)
	switch sym.Choice("read", 3) {
	case 0:
		k := symkv.Bytes("rk", 0, 2)
		got, _ := h.t1.Get(k)
		has, _ := h.t1.Has(k)
		if i := view.Find(k); i >= 0 {
			sym.Assert(has && got != nil && bytes.Equal(got, view.Pairs[i].V), "Get through the table")
		} else {
			sym.Assert(!has && got == nil, "Get of a key outside the table view")
		}
	case 1:
		ip, st := symkv.Bytes("ip", 0, 1), symkv.Bytes("st", 0, 1)
		got := vstore.Collect(h.t1.NewIterator(ip, st))
		sym.Assert(symkv.EqPairs(got, view.Range(ip, st)), "table iteration = view iteration with prefix removed")
	case 2:
		snap, err := h.t1.GetSnapshot()
		sym.Assert(err == nil, "GetSnapshot")
		h.t1.Put([]byte("late"), []byte{3})
		got := vstore.Collect(snap.NewIterator(nil, nil))
		sym.Assert(symkv.EqPairs(got, view.Range(nil, nil)), "table snapshot unaffected by later writes")
		k := symkv.Bytes("rk", 0, 1)
		v, _ := snap.Get(k)
		if i := view.Find(k); i >= 0 {
			sym.Assert(v != nil && bytes.Equal(v, view.Pairs[i].V), "snapshot Get through the table")
		} else {
			sym.Assert(v == nil, "snapshot Get of absent key")
		}
		snap.Release()
	}
	sym.Reach("read")
}

// VerifH_C24_nested: a table of a table equals a table with the concatenated prefix.
func VerifH_C24_nested() {
	u := vstore.New()
	p1, p3 := symkv.Bytes("p1", 1, 1), symkv.Bytes("p3", 0, 1)
	nested := New(u, p1).NewTable(p3)
	flat := New(u, append(append([]byte{}, p1...), p3...))
	k, v := symkv.Bytes("k", 0, 1), []byte{5}
	nested.Put(k, v)
	got, _ := flat.Get(k)
	sym.Assert(got != nil && bytes.Equal(got, v), "nested table writes where the flat table reads")
	full := append(append(append([]byte{}, p1...), p3...), k...)
	has, _ := u.Has(full)
	sym.Assert(has && len(u.M.Pairs) == 1, "nested key = p1||p3||k")
	gotIt := vstore.Collect(nested.NewIterator(nil, nil))
	sym.Assert(len(gotIt) == 1 && bytes.Equal(gotIt[0].K, k), "nested iteration strips both prefixes")
	var _ kvdb.Store = nested
	sym.Reach("nested")
}
