package flaggedproducer

import (
	"bytes"

	"github.com/Fantom-foundation/lachesis-base/kvdb"
	"github.com/Fantom-foundation/lachesis-base/kvdb/flushable"
	"github.com/Fantom-foundation/lachesis-base/zzverif/sym"
	"github.com/Fantom-foundation/lachesis-base/zzverif/vstore"
)

var vFlushKey = []byte("flush-id")

type vFlushRec struct {
	id   []byte
	data map[string]*vstore.Map
}

var vc25Op = [...]string{"op0", "op1", "op2", "op3", "op4", "op5"}

func vHistory(p kvdb.FlushableDBProducer, fs *vstore.FS, nOps int, flushes *[]vFlushRec) {
	names := [...]string{"A", "B"}
	nextID := byte(1)
	nWrites := byte(0)
	for i := 0; i < nOps; i++ {
		switch sym.Choice(vc25Op[i], 4) {
		case 0, 1:
			name := names[sym.Choice(vc25Op[i]+"db", 2)]
			db, err := p.OpenDB(name)
			if err != nil {
				panic(err)
			}
			nWrites++
			if sym.Choice(vc25Op[i]+"batch", 2) == 0 {
				if err := db.Put([]byte{'k', nWrites % 2}, []byte{nWrites}); err != nil {
					panic(err)
				}
			} else {
				b := db.NewBatch()
				b.Put([]byte{'k', nWrites % 2}, []byte{nWrites})
				b.Delete([]byte{'k', (nWrites + 1) % 2})
				if err := b.Write(); err != nil {
					panic(err)
				}
			}
		case 2:
			db, err := p.OpenDB("B")
			if err != nil {
				panic(err)
			}
			db.Close()
			db.Drop()
			sym.Reach("drop")
		case 3:
			id := []byte{nextID}
			nextID++
			if err := p.Flush(id); err != nil {
				panic(err)
			}
			*flushes = append(*flushes, vFlushRec{id, fs.Snapshot(vFlushKey)})
			sym.Reach("flush-completed")
		}
	}
}

func vSameData(a, b *vstore.Map) bool {
	if a == nil {
		a = &vstore.Map{}
	}
	if b == nil {
		b = &vstore.Map{}
	}
	ra, rb := a.Range(nil, nil), b.Range(nil, nil)
	if len(ra) != len(rb) {
		return false
	}
	for i := range ra {
		if !bytes.Equal(ra[i].K, rb[i].K) || !bytes.Equal(ra[i].V, rb[i].V) {
			return false
		}
	}
	return true
}

func verifC25Flagged(nOps int) {
	dry := vstore.NewFS()
	var dryFlushes []vFlushRec
	vHistory(Wrap(dry, vFlushKey), dry, nOps, &dryFlushes)
	fs := vstore.NewFS()
	var flushes []vFlushRec
	crashAt := sym.Choice("crashAt", dry.Steps+1) - 1
	fs.CrashAt = crashAt
	crashed := sym.Panics(func() { vHistory(Wrap(fs, vFlushKey), fs, nOps, &flushes) })
	sym.Assert(crashed == (crashAt >= 0), "harness: the crash point is reached")
	if crashed {
		sym.Reach("crashed")
	}
	fs2 := fs.Reopen()
	reported, err := Wrap(fs2, vFlushKey).Initialize(fs2.Names(), nil)
	if err != nil {
		sym.Reach("reported-dirty-or-unsynced")
		return
	}
	var want map[string]*vstore.Map
	found := reported == nil
	if reported == nil {
		want = map[string]*vstore.Map{}
	}
	for _, f := range flushes {
		if reported != nil && bytes.Equal(reported, append([]byte{flushable.CleanPrefix}, f.id...)) {
			want, found = f.data, true
		}
	}
	sym.Assert(found, "a clean restart reports the ID of a flush that completed")
	if !found {
		return
	}
	survivors := fs2.Snapshot(vFlushKey)
	ok := true
	for _, n := range [...]string{"A", "B"} {
		ok = ok && vSameData(survivors[n], want[n])
	}
	sym.Assert(ok, "after a clean restart every database holds exactly the contents of the reported flush (absent = empty)")
	sym.Reach("clean-restart")
}

func VerifH_C25_flagged3() { verifC25Flagged(3) }
func VerifH_C25_flagged4() { verifC25Flagged(4) }
func VerifH_C25_flagged5() { verifC25Flagged(5) }
