package pebble

import (
	"bytes"

	"github.com/Fantom-foundation/lachesis-base/zzverif/sym"
	"github.com/Fantom-foundation/lachesis-base/zzverif/symkv"
)

// VerifH_C23_pebbleRange: the bounds handed to Pebble for NewIterator(prefix, start)
// select exactly the keys with the prefix that are >= prefix||start.
func VerifH_C23_pebbleRange() {
	prefix := symkv.Bytes("prefix", 0, 2)
	start := symkv.Bytes("start", 0, 2)
	if len(prefix) == 0 && sym.Choice("nilprefix", 2) == 1 {
		prefix = nil
	}
	if len(start) == 0 && sym.Choice("nilstart", 2) == 1 {
		start = nil
	}
	key := symkv.Bytes("key", 0, 3)
	lo := append(append([]byte{}, prefix...), start...)
	want := sym.And(bytes.HasPrefix(key, prefix), bytes.Compare(key, lo) >= 0)
	r := bytesPrefixRange(prefix, start)
	if r == nil {
		sym.Assert(want, "no bounds: every key is in range")
		sym.Reach("unbounded")
		return
	}
	in := sym.And(bytes.Compare(key, r.LowerBound) >= 0, sym.Or(r.UpperBound == nil, bytes.Compare(key, r.UpperBound) < 0))
	sym.Assert(sym.Iff(in, want), "Pebble bounds = keys with the prefix from prefix||start")
	sym.Reach("range")
}
