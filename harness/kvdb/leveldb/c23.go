package leveldb

import (
	"bytes"

	"github.com/Fantom-foundation/lachesis-base/zzverif/sym"
	"github.com/Fantom-foundation/lachesis-base/zzverif/symkv"
)

// VerifH_C23_leveldbRange: the range handed to LevelDB for NewIterator(prefix, start)
// selects exactly the keys with the prefix that are >= prefix||start.
func VerifH_C23_leveldbRange() {
	prefix := symkv.Bytes("prefix", 0, 2)
	start := symkv.Bytes("start", 0, 2)
	if len(prefix) == 0 && sym.Choice("nilprefix", 2) == 1 {
		prefix = nil
	}
	if len(start) == 0 && sym.Choice("nilstart", 2) == 1 {
		start = nil
	}
	key := symkv.Bytes("key", 0, 3)
	lo := append(append([]byte{}, prefix...), start...)
	r := bytesPrefixRange(prefix, start)
	in := sym.And(bytes.Compare(key, r.Start) >= 0, sym.Or(r.Limit == nil, bytes.Compare(key, r.Limit) < 0))
	want := sym.And(bytes.HasPrefix(key, prefix), bytes.Compare(key, lo) >= 0)
	sym.Assert(sym.Iff(in, want), "LevelDB range = keys with the prefix from prefix||start")
	sym.Reach("range")
}
