package cachedproducer

import (
	"errors"

	"github.com/Fantom-foundation/lachesis-base/kvdb"
	"github.com/Fantom-foundation/lachesis-base/zzverif/sym"
	"github.com/Fantom-foundation/lachesis-base/zzverif/vstore"
)

// counting producer: every OpenDB yields a fresh store whose Close/Drop are counted per name
type vCountStore struct {
	*vstore.Store
	p    *vProducer
	name string
}

func (s *vCountStore) Close() error { s.p.closes[s.name]++; return nil }
func (s *vCountStore) Drop()        { s.p.drops[s.name]++ }

type vProducer struct {
	opens, closes, drops map[string]int
	failNext             bool // the next real open fails (consumed by it)
}

func newVProducer() *vProducer {
	return &vProducer{opens: map[string]int{}, closes: map[string]int{}, drops: map[string]int{}}
}

func (p *vProducer) OpenDB(name string) (kvdb.Store, error) {
	if p.failNext {
		p.failNext = false
		return nil, errors.New("open failed")
	}
	p.opens[name]++
	return &vCountStore{vstore.New(), p, name}, nil
}
func (p *vProducer) Names() []string                                  { return nil }
func (p *vProducer) NotFlushedSizeEst() int                           { return 0 }
func (p *vProducer) Flush(id []byte) error                            { return nil }
func (p *vProducer) Initialize(n []string, id []byte) ([]byte, error) { return id, nil }
func (p *vProducer) Close() error                                     { return nil }

type vHandle struct {
	name   string
	store  kvdb.Store
	closed bool
}

var (
	vc27Op = [...]string{"op0", "op1", "op2", "op3", "op4", "op5"}
	vc27N  = [...]string{"name0", "name1", "name2", "name3", "name4", "name5"}
	vc27H  = [...]string{"h0", "h1", "h2", "h3", "h4", "h5"}
)

func verifC27(all bool, nOps int) { verifC27x(all, nOps, false, 2) }

// withFail: a fourth operation, an OpenDB during which the underlying open fails (if it is attempted at all)
func verifC27x(all bool, nOps int, withFail bool, nNames int) {
	under := newVProducer()
	var prod kvdb.DBProducer
	if all {
		prod = WrapAll(under)
	} else {
		prod = Wrap(under)
	}
	names := [...]string{"x", "y"}
	var handles []*vHandle
	ref := map[string]int{}        // model: open handles per name
	cur := map[string]kvdb.Store{} // model: the store shared by the open handles of a name
	armed := map[string]bool{}     // model: drop not yet forwarded since the last open of the name
	wantCloses := map[string]int{}
	wantDrops := map[string]int{}
	opensVia := map[string]int{} // OpenDB calls made through the caching producer
	for i := 0; i < nOps; i++ {
		kinds := 3
		if withFail {
			kinds = 4
		}
		op := sym.Choice(vc27Op[i], kinds)
		if (op == 1 || op == 2) && len(handles) == 0 {
			op = 0
		}
		switch op {
		case 0, 3:
			name := names[sym.Choice(vc27N[i], nNames)]
			under.failNext = op == 3
			s, err := prod.OpenDB(name)
			if op == 3 && ref[name] == 0 {
				sym.Assert(err != nil && !under.failNext, "a failing open of the underlying database is reported")
				sym.Reach("failed-open")
				// a failed open does not count as a reference; the statement does not speak about failing opens,
				// so the attempt is allowed to re-arm the drop (the code does) and counts for "once per open"
				armed[name] = true
				opensVia[name]++
				break
			}
			under.failNext = false
			sym.Assert(err == nil && s != nil, "OpenDB succeeds")
			if ref[name] > 0 {
				sym.Assert(s == cur[name], "opening an open name returns the same store")
				sym.Reach("shared")
			}
			cur[name] = s
			ref[name]++
			opensVia[name]++
			armed[name] = true
			handles = append(handles, &vHandle{name: name, store: s})
		case 1:
			h := handles[sym.Choice(vc27H[i], len(handles))]
			err := h.store.Close()
			if ref[h.name] <= 0 {
				sym.Assert(err != nil, "closing more often than opening is an error")
				sym.Reach("over-close")
			} else {
				sym.Assert(err == nil, "Close of an open handle succeeds")
				ref[h.name]--
				if ref[h.name] == 0 {
					wantCloses[h.name]++
					sym.Reach("last-close")
				}
			}
		case 2:
			h := handles[sym.Choice(vc27H[i], len(handles))]
			h.store.Drop()
			if armed[h.name] {
				wantDrops[h.name]++
				armed[h.name] = false
			}
			sym.Reach("drop")
		}
		for _, n := range names {
			sym.Assert(under.closes[n] == wantCloses[n], "the underlying database is closed exactly once, at the last close")
			sym.Assert(under.drops[n] == wantDrops[n] && under.drops[n] <= opensVia[n], "the underlying drop runs at most once per open")
		}
	}
	sym.Reach("c27")
}

func VerifH_C27_all4()  { verifC27(true, 4) }
func VerifH_C27_all5()  { verifC27(true, 5) }
func VerifH_C27_wrap4() { verifC27(false, 4) }
func VerifH_C27_wrap5() { verifC27(false, 5) }
func VerifH_C27_fail5() { verifC27x(sym.Choice("all", 2) == 1, 5, true, 1) }
