package flushable

import (
	"github.com/Fantom-foundation/lachesis-base/kvdb"
	"github.com/Fantom-foundation/lachesis-base/zzverif/sym"
	"github.com/Fantom-foundation/lachesis-base/zzverif/symkv"
	"github.com/Fantom-foundation/lachesis-base/zzverif/vstore"
)

// vF drives a Flushable over the reference store, mirroring every write in
// `view` (what reads must show) and tracking the distinct keys written since
// the last flush/drop.
type vF struct {
	under   *vstore.Store
	f       kvdb.FlushableKVStore
	view    *vstore.Map
	written *vstore.Map
	keyLen  int
	lazy    bool // LazyFlushable whose producer has not been called yet
	valMin  int  // 0: values may be empty; 1: always one arbitrary byte
	kinds   int  // 2: put/delete; 3: + batch
}

func newVF(nUnder, keyLen int, lazy bool) *vF {
	h := &vF{under: vstore.New(), view: &vstore.Map{}, written: &vstore.Map{}, keyLen: keyLen, valMin: 1, kinds: 3}
	names := [...][2]string{{"uk0", "uv0"}, {"uk1", "uv1"}}
	for i := 0; i < nUnder; i++ {
		k, v := symkv.Key(names[i][0], keyLen), symkv.Bytes(names[i][1], 1, 1)
		h.under.M.Set(k, v)
		h.view.Set(k, v)
	}
	if lazy {
		h.f = NewLazy(func() (kvdb.Store, error) { return h.under, nil }, nil)
		// a lazy flushable has no underlying store until its first flush
		h.view = &vstore.Map{}
		h.lazy = true
	} else {
		h.f = Wrap(h.under)
	}
	return h
}

var vOpNames = [...][4]string{{"op0", "k0", "v0", "x0"}, {"op1", "k1", "v1", "x1"}, {"op2", "k2", "v2", "x2"}, {"op3", "k3", "v3", "x3"}}

// write performs one arbitrary write operation (put / delete / batch of put+delete).
func (h *vF) write(i int) {
	n := vOpNames[i]
	k, v := symkv.Key(n[1], h.keyLen), symkv.Bytes(n[2], h.valMin, 1)
	switch sym.Choice(n[0], h.kinds) {
	case 0:
		sym.Assert(h.f.Put(k, v) == nil, "Put succeeds")
		h.view.Set(k, v)
		h.written.Set(k, nil)
	case 1:
		sym.Assert(h.f.Delete(k) == nil, "Delete succeeds")
		h.view.Del(k)
		h.written.Set(k, nil)
	case 2:
		k2 := symkv.Key(n[3], h.keyLen)
		b := h.f.NewBatch()
		b.Put(k, v)
		b.Delete(k2)
		sym.Assert(b.ValueSize() == len(k)+len(v)+len(k2), "batch size")
		sym.Assert(b.Write() == nil, "batch Write succeeds")
		h.view.Set(k, v)
		h.view.Del(k2)
		h.written.Set(k, nil)
		h.written.Set(k2, nil)
	}
}

func (h *vF) checkReads(tag string) {
	k := symkv.Key(tag+"rk", h.keyLen)
	got, err := h.f.Get(k)
	has, err2 := h.f.Has(k)
	sym.Assert(err == nil && err2 == nil, "reads succeed")
	if i := h.view.Find(k); i >= 0 {
		sym.Assert(has, "Has sees overlay-over-underlying")
		sym.Assert(got != nil && symkv.EqBytes(got, h.view.Pairs[i].V), "Get sees overlay-over-underlying (empty value is present)")
	} else {
		sym.Assert(!has, "Has: absent key")
		sym.Assert(got == nil, "Get: absent key is nil")
	}
	sym.Assert(h.f.NotFlushedPairs() == len(h.written.Pairs), "NotFlushedPairs = distinct keys written since flush/drop")
}

func (h *vF) checkIter(tag string) {
	prefix := symkv.Bytes(tag+"ip", 0, 1)
	start := symkv.Bytes(tag+"is", 0, 1)
	if sym.Choice(tag+"nilprefix", 2) == 1 && len(prefix) == 0 {
		prefix = nil
	}
	got := vstore.Collect(h.f.NewIterator(prefix, start))
	want := h.view.Range(prefix, start)
	sym.Assert(len(got) == len(want), "iteration yields exactly the keys of the view with the prefix, from prefix||start")
	sym.Assert(symkv.EqPairs(got, want), "iteration is ascending and shows overlay-over-underlying values")
}

func (h *vF) final() { h.finalOf(sym.Choice("final", 7)) }

// flushed brings the expectation up to date after a Flush: for a lazy store the
// produced store becomes the underlying one at its first flush.
func (h *vF) flushed(before *vstore.Map) {
	if h.lazy {
		nv := before.Copy()
		for _, w := range h.written.Pairs {
			if i := h.view.Find(w.K); i >= 0 {
				nv.Set(w.K, h.view.Pairs[i].V)
			} else {
				nv.Del(w.K)
			}
		}
		h.view = nv
		h.lazy = false
	}
	h.written = &vstore.Map{}
}

// initUnder makes a lazy store produce its underlying database WITHOUT flushing (InitUnderlyingDb, as the
// synced pool does at start-up): from then on the view is the produced store overlaid with the unflushed writes.
func (h *vF) initUnder() {
	if !h.lazy {
		return
	}
	db, err := h.f.(*LazyFlushable).InitUnderlyingDb()
	sym.Assert(err == nil && db != nil, "InitUnderlyingDb succeeds")
	nv := h.under.M.Copy()
	for _, w := range h.written.Pairs {
		if i := h.view.Find(w.K); i >= 0 {
			nv.Set(w.K, h.view.Pairs[i].V)
		} else {
			nv.Del(w.K)
		}
	}
	h.view = nv
	h.lazy = false
	sym.Reach("lazy-init")
}

func (h *vF) finalOf(kind int) {
	switch kind {
	case 0:
		h.checkReads("a")
		sym.Reach("reads")
	case 1:
		h.checkIter("a")
		sym.Reach("iterate")
	case 2:
		underBefore := h.under.M.Copy()
		sym.Assert(h.f.Flush() == nil, "Flush succeeds")
		h.flushed(underBefore)
		sym.Assert(symkv.EqPairs(h.under.M.Range(nil, nil), h.view.Range(nil, nil)), "after Flush the underlying store equals the view")
		sym.Assert(h.f.NotFlushedPairs() == 0 && h.f.NotFlushedSizeEst() == 0, "Flush empties the overlay")
		h.checkIter("b")
		sym.Reach("flush")
	case 3:
		before := h.under.M.Copy()
		h.f.DropNotFlushed()
		sym.Assert(symkv.EqPairs(h.under.M.Range(nil, nil), before.Range(nil, nil)), "DropNotFlushed leaves the underlying store alone")
		if h.lazy {
			h.view = &vstore.Map{}
		} else {
			h.view = h.under.M.Copy()
		}
		h.written = &vstore.Map{}
		sym.Assert(h.f.NotFlushedPairs() == 0, "DropNotFlushed empties the overlay")
		h.checkIter("b")
		h.checkReads("b")
		sym.Reach("drop")
	case 4:
		// snapshot is unaffected by later writes, flushes and drops
		snap, err := h.f.GetSnapshot()
		sym.Assert(err == nil, "GetSnapshot succeeds")
		frozen := h.view.Copy()
		// a later write of an arbitrary key (put or delete), then nothing / flush / drop
		lk := symkv.Key("lk", h.keyLen)
		if sym.Choice("lop", 2) == 0 {
			h.f.Put(lk, []byte{7})
		} else {
			h.f.Delete(lk)
		}
		switch sym.Choice("after", 3) {
		case 1:
			h.f.Flush()
		case 2:
			h.f.DropNotFlushed()
		}
		if sym.Choice("snapread", 2) == 0 {
			got := vstore.Collect(snap.NewIterator(nil, nil))
			sym.Assert(symkv.EqPairs(got, frozen.Range(nil, nil)), "snapshot iteration unaffected by later writes/flush/drop")
		} else {
			// read the key that was written after the snapshot was taken
			v, _ := snap.Get(lk)
			has, _ := snap.Has(lk)
			if i := frozen.Find(lk); i >= 0 {
				sym.Assert(has && v != nil && symkv.EqBytes(v, frozen.Pairs[i].V), "snapshot Get unaffected")
			} else {
				sym.Assert(!has && v == nil, "snapshot Get of absent key")
			}
		}
		snap.Release()
		sym.Reach("snapshot")
	case 5:
		// an iterator created before a write still yields ascending keys of the prefix, each at most once
		it := h.f.NewIterator(nil, nil)
		var got []vstore.Pair
		if it.Next() {
			got = append(got, vstore.Pair{K: append([]byte{}, it.Key()...), V: append([]byte{}, it.Value()...)})
		}
		saved := h.kinds
		h.kinds = 2
		h.write(3)
		h.kinds = saved
		got = append(got, vstore.Collect(it)...)
		for i := range got {
			if i > 0 {
				sym.Assert(string(got[i-1].K) < string(got[i].K), "iterator opened before a write stays strictly ascending")
			}
		}
		sym.Reach("iter-before-write")
	case 6:
		// flush then further write and read: overlay restarts empty
		ub := h.under.M.Copy()
		h.f.Flush()
		h.flushed(ub)
		saved := h.kinds
		h.kinds = 2
		h.write(3)
		h.kinds = saved
		if sym.Choice("fwread", 2) == 0 {
			h.checkReads("c")
		} else {
			h.checkIter("c")
		}
		sym.Reach("flush-write")
	}
}

// VerifH_C22_q: 1 underlying entry, 2 arbitrary writes (put/delete/batch), keys of 1 arbitrary
// byte, values of 1 arbitrary byte, one final check out of 7.
func VerifH_C22_q() {
	h := newVF(1, 1, false)
	h.kinds = 2
	h.write(0)
	h.write(1)
	h.final()
}

// VerifH_C22_batch: 1 underlying entry, one batch (put+delete of arbitrary keys), then a final check.
func VerifH_C22_batch() { verifC22Batch(true, 1) }

// VerifH_C22_batchEmpty: the batched value may be empty (an empty value is a put, not a deletion).
func VerifH_C22_batchEmpty() { verifC22Batch(false, 0) }

func verifC22Batch(withFirst bool, valMin int) {
	h := newVF(1, 1, false)
	if withFirst && sym.Choice("first", 2) == 1 {
		h.kinds = 2
		h.write(1)
	}
	h.kinds = 3
	n := vOpNames[0]
	k, v, k2 := symkv.Key(n[1], 1), symkv.Bytes(n[2], valMin, 1), symkv.Key(n[3], 1)
	if len(v) == 0 {
		sym.Reach("empty-batched-value")
	}
	b := h.f.NewBatch()
	b.Put(k, v)
	b.Delete(k2)
	sym.Assert(b.Write() == nil, "batch Write succeeds")
	h.view.Set(k, v)
	h.view.Del(k2)
	h.written.Set(k, nil)
	h.written.Set(k2, nil)
	// replaying the batch into another store reproduces its operations in order
	rec := vstore.New()
	rec.M.Set(k2, []byte{9})
	sym.Assert(b.Replay(rec) == nil, "Replay succeeds")
	has, _ := rec.Has(k)
	sym.Assert(has == (string(k) != string(k2)), "Replay applies the put, then the delete (in batch order)")
	has2, _ := rec.Has(k2)
	sym.Assert(!has2, "Replay applies the delete")
	h.kinds = 2
	h.finalOf(sym.Choice("final", 4))
}

// VerifH_C22_empty: empty values are present, not absent: 0-1 underlying entries, 1 write whose
// value may be empty, then every final check.
func VerifH_C22_empty() {
	h := newVF(sym.Choice("nunder", 2), 1, false)
	h.valMin, h.kinds = 0, 2
	h.write(0)
	h.finalOf(sym.Choice("final", 4))
}

// VerifH_C22_prefix: keys of 1-2 arbitrary bytes (prefix relations between keys, 0xff included),
// 1 underlying entry, 1 put/delete, then iteration or reads.
func VerifH_C22_prefix() {
	h := newVF(1, 2, false)
	h.kinds = 2
	h.write(0)
	if sym.Choice("final", 2) == 0 {
		h.checkIter("a")
	} else {
		h.checkReads("a")
	}
	sym.Reach("prefix")
}

// VerifH_C22_t: 0-2 underlying entries, 2 put/delete writes, reads / iteration / flush / snapshot.
// (0-2 entries with two or three writes that may also be BATCHES did not finish: > 1 M paths explored in 3000 s
// without a violation; such runs are not registered.  Batches are covered by _q, _batch and _batchEmpty.)
func VerifH_C22_t() {
	h := newVF(sym.Choice("nunder", 3), 1, false)
	h.kinds = 2
	h.write(0)
	h.write(1)
	h.finalOf(sym.Choice("final", 4))
}

// VerifH_C22_w3: 1 underlying entry, 3 put/delete writes, then reads / iteration / flush / snapshot.
func VerifH_C22_w3() {
	h := newVF(1, 1, false)
	h.kinds = 2
	h.write(0)
	h.write(1)
	h.write(2)
	h.finalOf(sym.Choice("final", 4))
}

// VerifH_C22_lazyInit: LazyFlushable whose underlying database is produced by InitUnderlyingDb (not by a
// flush), before or after an unflushed write: reads / iteration / flush / drop see produced store + overlay.
func VerifH_C22_lazyInit() {
	h := newVF(1, 1, true)
	h.kinds = 2
	at := sym.Choice("initAt", 2)
	if at == 0 {
		h.initUnder()
	}
	h.write(0)
	if at == 1 {
		h.initUnder()
	}
	h.finalOf(sym.Choice("final", 4))
}

// VerifH_C22_lazy: LazyFlushable: producer called at first flush, same semantics.
func VerifH_C22_lazy() {
	h := newVF(1, 1, true)
	h.kinds = 2
	h.write(0)
	h.write(1)
	h.final()
}
