package flushable

import (
	"bytes"

	"github.com/Fantom-foundation/lachesis-base/kvdb"
	"github.com/Fantom-foundation/lachesis-base/zzverif/sym"
	"github.com/Fantom-foundation/lachesis-base/zzverif/vstore"
)

var vFlushKey = []byte("flush-id")

type vFlushRec struct {
	id   []byte
	data map[string]*vstore.Map
}

var (
	vc25Op = [...]string{"op0", "op1", "op2", "op3", "op4", "op5"}
)

// vHistory runs nOps operations through producer p (the pool or the flagged producer) over fs;
// it returns the flushes that COMPLETED.  A crash surfaces as a vstore.Crash panic.
func vHistory(p kvdb.FlushableDBProducer, fs *vstore.FS, nOps int, flushes *[]vFlushRec) {
	names := [...]string{"A", "B"}
	nextID := byte(1)
	nWrites := byte(0)
	for i := 0; i < nOps; i++ {
		switch sym.Choice(vc25Op[i], 4) {
		case 0, 1: // write to A / B
			name := names[sym.Choice(vc25Op[i]+"db", 2)]
			db, err := p.OpenDB(name)
			if err != nil {
				panic(err)
			}
			nWrites++
			if err := db.Put([]byte{'k', nWrites % 2}, []byte{nWrites}); err != nil {
				panic(err)
			}
		case 2: // drop B
			db, err := p.OpenDB("B")
			if err != nil {
				panic(err)
			}
			db.Close()
			db.Drop()
			sym.Reach("drop")
		case 3: // flush
			id := []byte{nextID}
			nextID++
			if err := p.Flush(id); err != nil {
				panic(err)
			}
			*flushes = append(*flushes, vFlushRec{id, fs.Snapshot(vFlushKey)})
			sym.Reach("flush-completed")
		}
	}
}

func vSameData(a, b *vstore.Map) bool {
	if a == nil {
		a = &vstore.Map{}
	}
	if b == nil {
		b = &vstore.Map{}
	}
	ra, rb := a.Range(nil, nil), b.Range(nil, nil)
	if len(ra) != len(rb) {
		return false
	}
	for i := range ra {
		if !bytes.Equal(ra[i].K, rb[i].K) || !bytes.Equal(ra[i].V, rb[i].V) {
			return false
		}
	}
	return true
}

// vCheckRestart: the disjunction of the statement, after a restart over the surviving databases.
func vCheckRestart(reported []byte, err error, survivors map[string]*vstore.Map, flushes []vFlushRec, findingOpen bool) {
	if err != nil {
		sym.Reach("reported-dirty-or-unsynced")
		return
	}
	// no error: the reported flush ID must name a completed flush (nil: the state before any flush)
	var want map[string]*vstore.Map
	found := reported == nil
	if reported == nil {
		want = map[string]*vstore.Map{}
	}
	for _, f := range flushes {
		if reported != nil && bytes.Equal(reported, append([]byte{CleanPrefix}, f.id...)) {
			want, found = f.data, true
		}
	}
	sym.Assert(found, "a clean restart reports the ID of a flush that completed")
	if !found {
		return
	}
	ok := true
	for _, n := range [...]string{"A", "B"} {
		ok = ok && vSameData(survivors[n], want[n]) // absent == empty
	}
	if findingOpen && !ok {
		sym.Reach("known-finding-region")
		return
	}
	sym.Assert(ok, "after a clean restart every database holds exactly the contents of the reported flush (absent = empty)")
	sym.Reach("clean-restart")
}

// verifC25Pool: every history of nOps operations through the SyncedPool, every crash point.
func verifC25Pool(nOps int) {
	// an uninterrupted run of the (symbolic) history first, to learn its number of durable steps
	dry := vstore.NewFS()
	var dryFlushes []vFlushRec
	vHistory(NewSyncedPool(dry, vFlushKey), dry, nOps, &dryFlushes)
	// the same history again with a crash before any one of its durable steps (or none)
	fs := vstore.NewFS()
	pool := NewSyncedPool(fs, vFlushKey)
	var flushes []vFlushRec
	crashAt := sym.Choice("crashAt", dry.Steps+1) - 1 // -1 = no crash
	fs.CrashAt = crashAt
	crashed := sym.Panics(func() { vHistory(pool, fs, nOps, &flushes) })
	sym.Assert(crashed == (crashAt >= 0), "harness: the crash point is reached")
	if crashed {
		sym.Reach("crashed")
	}
	// restart over the surviving stores
	fs2 := fs.Reopen()
	pool2 := NewSyncedPool(fs2, vFlushKey)
	reported, err := pool2.Initialize(fs2.Names(), nil)
	vCheckRestart(reported, err, fs2.Snapshot(vFlushKey), flushes, sym.Known("C25-pool-drop-before-dirty"))
}

func VerifH_C25_pool3() { verifC25Pool(3) }
func VerifH_C25_pool4() { verifC25Pool(4) }
func VerifH_C25_pool5() { verifC25Pool(5) }
