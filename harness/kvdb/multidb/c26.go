package multidb

import (
	"strings"

	"github.com/Fantom-foundation/lachesis-base/kvdb"
	"github.com/Fantom-foundation/lachesis-base/zzverif/sym"
	"github.com/Fantom-foundation/lachesis-base/zzverif/vstore"
)

var vRecordsKey = []byte("\xff-records")

// a request of 0..3 bytes over the alphabet {a, b, /}
func vReq(name string) string {
	n := sym.Choice(name+"_len", 4)
	b := make([]byte, n)
	pos := [...]string{"_0", "_1", "_2"}
	for i := 0; i < n; i++ {
		c := sym.U8(name + pos[i])
		sym.Assume(c == 'a' || c == 'b' || c == '/')
		b[i] = c
	}
	return string(b)
}

func vTable(variant int) map[string]Route {
	t := map[string]Route{
		"":    {Type: "t", Name: "main"},
		"a":   {Type: "t", Name: "x", Table: "A"},
		"b":   {Type: "t", Name: "x", Table: "B"},
		"a/b": {Type: "t", Name: "y", Table: ""},
	}
	switch variant {
	case 1:
		t["a"] = Route{Type: "t", Name: "z", Table: "A"} // request "a" now lives in another database
	case 2:
		t["b"] = Route{Type: "t", Name: "x", Table: "C"} // request "b" now uses another table
	case 3:
		for k, r := range t { // everything now lives in databases of another type; no route names the old type
			r.Type = "u"
			t[k] = r
		}
	case 4:
		t["b"] = Route{Type: "u", Name: "x", Table: "B"} // request "b" now lives in a database of another type
	case 5:
		t["b"] = Route{Type: "t", Name: "x", Table: "Bx"} // request "b": its table is EXTENDED (old table is a prefix of the new one)
	case 6:
		t["a"] = Route{Type: "t", Name: "x", Table: ""} // request "a": its table is SHORTENED to a prefix of the old one
	}
	return t
}

func vProducerOver(fs *vstore.FS, variant int) *Producer { return vProducerOrd(fs, variant, false) }

// the databases of the second type "u" that belong to the same (persistent) set of stores
var vOtherType = map[*vstore.FS]*vstore.FS{}

func vProducerOrd(fs *vstore.FS, variant int, nondet bool) *Producer {
	fsU := vOtherType[fs]
	if fsU == nil {
		fsU = vstore.NewFS()
		vOtherType[fs] = fsU
	}
	sym.NondetMaps(nondet) // the routing table is a Go map: every iteration order (route harness)
	p, err := NewProducer(map[TypeName]kvdb.FullDBProducer{"t": vstore.FullProducer{FS: fs}, "u": vstore.FullProducer{FS: fsU}}, vTable(variant), vRecordsKey)
	sym.NondetMaps(false)
	if err != nil {
		panic(err)
	}
	return p
}

// VerifH_C26_route: RouteOf is a function of the request (two producers built from the same table,
// every map order), for every request of 0-3 bytes over {a,b,/}.
func VerifH_C26_route() {
	fs := vstore.NewFS()
	p1, p2 := vProducerOrd(fs, 0, true), vProducerOrd(fs, 0, true)
	req := vReq("req")
	r1, r2 := p1.RouteOf(req), p2.RouteOf(req)
	sym.Assert(r1 == r2, "routing is a function of the request")
	sym.Assert(p1.RouteOf(req) == r1, "routing the same request twice gives the same route")
	sym.Assert(r1.Type == "t", "the route names a known database type")
	sym.Reach("route")
}

// VerifH_C26_reopen: re-opening after a restart.  A request (0-3 bytes) is opened and written through producer 1;
// producer 2 over the same databases has one of the routing variants (unchanged, other database, other table,
// other type, table extended / shortened to a prefix-related one).  With an unchanged route the re-open
// succeeds and finds the data; with another table in the same database it is refused; a move to another database
// is Verify's business.
func VerifH_C26_reopen() {
	fs := vstore.NewFS()
	p1 := vProducerOver(fs, 0)
	q := vReq("q")
	db1, err := p1.OpenDB(q)
	sym.Assert(err == nil, "the first request of a fresh producer is accepted")
	sym.Assert(db1.Put([]byte("k"), []byte{7}) == nil, "Put")
	variant := sym.Choice("variant", 7)
	p2 := vProducerOver(fs, variant)
	r1, r2 := p1.RouteOf(q), p2.RouteOf(q)
	db2, err2 := p2.OpenDB(q)
	switch {
	case r1 == r2:
		sym.Assert(err2 == nil, "re-opening after a restart yields the same database and table")
		got, _ := db2.Get([]byte("k"))
		sym.Assert(len(got) == 1 && got[0] == 7, "a re-opened request finds its data")
		sym.Reach("reopened")
	case r1.Type == r2.Type && r1.Name == r2.Name:
		// same database, another table: the database's own records know the request
		sym.Assert(err2 != nil, "a recorded request is not silently re-assigned to another table of its database")
		sym.Reach("refused-reassignment")
	default:
		// moved to another database: OpenDB cannot know (that is what Verify is for, see VerifH_C26_verify)
		sym.Reach("moved-elsewhere")
	}
	sym.Reach("reopen")
}

// VerifH_C26_history: the route of a request does not depend on which requests the producer routed before:
// producer 1 first routes an arbitrary request of 0-3 bytes, then one of its sub-paths (one or two more
// components); a fresh producer routes only the sub-path.
func VerifH_C26_history() {
	fs := vstore.NewFS()
	p1, p2 := vProducerOver(fs, 0), vProducerOver(fs, 0)
	first := vReq("first")
	comp := [...]string{"a", "b"}
	req := first + "/" + comp[sym.Choice("c1", 2)]
	if sym.Choice("deeper", 2) == 1 {
		req += "/" + comp[sym.Choice("c2", 2)]
	}
	before := p1.RouteOf(first)
	got, want := p1.RouteOf(req), p2.RouteOf(req)
	sym.Assert(got == want, "routing is a function of the request: it does not depend on the requests routed before")
	sym.Assert(p1.RouteOf(first) == before && p2.RouteOf(first) == before, "routing the same request again gives the same route")
	sym.Reach("history")
}

// VerifH_C26_isolation: two arbitrary requests opened one after the other: if both succeed and live in
// the same database, their tables are not prefixes of one another (unless the requests are equal), so
// a key written through one is invisible through the other; re-opening (also through a second producer
// over the same stores) yields the same database and table.
func VerifH_C26_isolation() {
	fs := vstore.NewFS()
	p1 := vProducerOver(fs, 0)
	q1, q2 := vReq("q1"), vReq("q2")
	db1, err1 := p1.OpenDB(q1)
	sym.Assert(err1 == nil, "the first request of a fresh producer is accepted")
	if err1 != nil {
		return
	}
	db2, err2 := p1.OpenDB(q2)
	r1, r2 := p1.RouteOf(q1), p1.RouteOf(q2)
	if err2 == nil {
		sym.Reach("both-open")
		if r1.Name == r2.Name && q1 != q2 {
			sym.Assert(!strings.HasPrefix(r1.Table, r2.Table) && !strings.HasPrefix(r2.Table, r1.Table), "requests sharing a database have tables that are not prefixes of one another")
			sym.Reach("same-db")
		}
		if q1 != q2 {
			sym.Assert(db1.Put([]byte("k"), []byte{1}) == nil, "Put")
			got, _ := db2.Get([]byte("k"))
			sym.Assert(got == nil, "a store never sees the keys of a store opened for another request")
		}
	} else {
		sym.Assert(r1.Name == r2.Name && q1 != q2 && (strings.HasPrefix(r1.Table, r2.Table) || strings.HasPrefix(r2.Table, r1.Table)), "a request is refused only when its table would overlap another request's table in the same database")
		sym.Reach("refused")
	}
	// re-opening, also after a restart over the same stores
	_, err := p1.OpenDB(q1)
	sym.Assert(err == nil, "re-opening a request succeeds")
	p2 := vProducerOver(fs, 0)
	_, err = p2.OpenDB(q1)
	sym.Assert(err == nil && p2.RouteOf(q1) == r1, "re-opening after a restart yields the same database and table")
	sym.Assert(p2.Verify() == nil, "verification passes while the routing is unchanged")
}

// VerifH_C26_verify: verification fails exactly when a recorded request is now routed elsewhere.
func VerifH_C26_verify() {
	fs := vstore.NewFS()
	p1 := vProducerOver(fs, 0)
	q1, q2 := vReq("q1"), vReq("q2")
	var opened []string
	if _, err := p1.OpenDB(q1); err == nil {
		opened = append(opened, q1)
	}
	if _, err := p1.OpenDB(q2); err == nil {
		opened = append(opened, q2)
	}
	variant := sym.Choice("variant", 5)
	p3 := vProducerOver(fs, variant)
	moved := false
	for _, q := range opened {
		if p3.RouteOf(q) != p1.RouteOf(q) {
			moved = true
		}
	}
	err := p3.Verify()
	sym.Assert((err != nil) == moved, "Verify fails exactly when a recorded request would now be routed to a different database or table")
	if moved {
		sym.Reach("moved")
	} else {
		sym.Reach("unmoved")
	}
}

// VerifH_C26_patterns: pattern routes: the route of a request must not depend on the iteration order of
// the routing table (the list of compiled patterns is filled by ranging over a Go map).
func VerifH_C26_patterns() {
	table := map[string]Route{
		"":    {Type: "t", Name: "main"},
		"a%s": {Type: "t", Name: "x%s"},
		"a%d": {Type: "t", Name: "y%d"},
	}
	n := 2
	if !sym.Symbolic() {
		n = 64 // natively the map order is random: many producers
	}
	var first Route
	for i := 0; i < n; i++ {
		fs := vstore.NewFS()
		sym.NondetMaps(true)
		p, err := NewProducer(map[TypeName]kvdb.FullDBProducer{"t": vstore.FullProducer{FS: fs}}, table, vRecordsKey)
		sym.NondetMaps(false)
		if err != nil {
			panic(err)
		}
		r := p.RouteOf("a5")
		if i == 0 {
			first = r
		} else if !sym.Known("C26-pattern-order") {
			sym.Assert(r == first, "pattern routing is deterministic: it does not depend on the map iteration order")
		}
	}
	sym.Reach("patterns")
}
