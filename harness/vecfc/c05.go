package vecfc

import (
	"github.com/Fantom-foundation/lachesis-base/hash"
	"github.com/Fantom-foundation/lachesis-base/inter/dag"
	"github.com/Fantom-foundation/lachesis-base/inter/idx"
	"github.com/Fantom-foundation/lachesis-base/inter/pos"
	"github.com/Fantom-foundation/lachesis-base/kvdb/memorydb"
	"github.com/Fantom-foundation/lachesis-base/zzverif/sym"
)

// Tiny symbolic topology: N events, each with a symbolic creator, a symbolic self-parent
// (any earlier event of the creator, or none => forks arise) and a symbolic set of other
// parents; symbolic weights.  The real Index (vecengine + memorydb + caches) is compared
// with the graph definition of forkless cause (C05) and of the merged vector clock (C06).

type vEv struct {
	e       *dag.MutableBaseEvent
	creator int
	seq     idx.Event
	parents []int
	anc     []bool
}

var (
	vnCreator = [...]string{"cr0", "cr1", "cr2", "cr3", "cr4", "cr5"}
	vnSelf    = [...]string{"sp0", "sp1", "sp2", "sp3", "sp4", "sp5"}
	vnPar     = [...][6]string{{}, {"p1_0"}, {"p2_0", "p2_1"}, {"p3_0", "p3_1", "p3_2"}, {"p4_0", "p4_1", "p4_2", "p4_3"}, {"p5_0", "p5_1", "p5_2", "p5_3", "p5_4"}}
	vnW       = [...]string{"w0", "w1", "w2", "w3"}
)

func verifTopology(N, V int, maxOther int) []*vEv {
	evs := make([]*vEv, N)
	for i := 0; i < N; i++ {
		ev := &vEv{anc: make([]bool, N)}
		if i > 0 {
			ev.creator = sym.Choice(vnCreator[i], V)
		}
		// self-parent: none or any earlier event of the same creator
		var own []int
		for j := 0; j < i; j++ {
			if evs[j].creator == ev.creator {
				own = append(own, j)
			}
		}
		sp := -1
		if k := sym.Choice(vnSelf[i], len(own)+1); k > 0 {
			sp = own[k-1]
		}
		ev.seq = 1
		if sp >= 0 {
			ev.seq = evs[sp].seq + 1
			ev.parents = append(ev.parents, sp)
		}
		others := 0
		for j := 0; j < i; j++ {
			if evs[j].creator != ev.creator && others < maxOther && sym.Bool(vnPar[i][j]) {
				ev.parents = append(ev.parents, j)
				others++
			}
		}
		ev.anc[i] = true
		var lamport idx.Lamport
		var pids hash.Events
		for _, p := range ev.parents {
			for a := 0; a < N; a++ {
				if evs[p].anc[a] {
					ev.anc[a] = true
				}
			}
			if evs[p].e.Lamport() > lamport {
				lamport = evs[p].e.Lamport()
			}
			pids = append(pids, evs[p].e.ID())
		}
		e := &dag.MutableBaseEvent{}
		e.SetEpoch(1)
		e.SetCreator(idx.ValidatorID(ev.creator + 1))
		e.SetSeq(ev.seq)
		e.SetLamport(lamport + 1)
		e.SetParents(pids)
		e.SetID([24]byte{byte(i + 1)})
		ev.e = e
		evs[i] = ev
	}
	return evs
}

func verifWeights(V int) (*pos.Validators, []pos.Weight) {
	sym.IntMode(true)
	ids := make([]idx.ValidatorID, V)
	ws := make([]pos.Weight, V)
	var total uint64
	for i := 0; i < V; i++ {
		ids[i] = idx.ValidatorID(i + 1)
		ws[i] = pos.Weight(sym.U32(vnW[i]))
		sym.Assume(ws[i] >= 1)
		if i > 0 {
			sym.Assume(ws[i-1] >= ws[i])
		}
		total += uint64(ws[i])
	}
	sym.Assume(total <= 1<<31-1)
	return pos.ArrayToValidators(ids, ws), ws
}

// dropEach: after every Add + Flush the index also drops its (empty) buffer, as abft does after every processed event:
// the in-memory branches info is then discarded and must come back from the database
var verifDropEach = false

func verifIndex(vals *pos.Validators, evs []*vEv, order []int) *Index {
	crit := func(err error) { panic(err) }
	byID := map[hash.Event]dag.Event{}
	for _, ev := range evs {
		byID[ev.e.ID()] = ev.e
	}
	vi := NewIndex(crit, LiteConfig())
	vi.Reset(vals, memorydb.New(), func(h hash.Event) dag.Event { return byID[h] })
	for _, i := range order {
		if err := vi.Add(evs[i].e); err != nil {
			panic(err)
		}
		vi.Flush()
		if verifDropEach {
			vi.DropNotFlushed()
		}
	}
	return vi
}

func forkIn(evs []*vEv, a, v int) bool {
	for x := range evs {
		for y := x + 1; y < len(evs); y++ {
			if evs[a].anc[x] && evs[a].anc[y] && evs[x].creator == v && evs[y].creator == v && evs[x].seq == evs[y].seq {
				return true
			}
		}
	}
	return false
}

func verifC05(N, V, maxOther int, secondOrder bool) {
	vals, ws := verifWeights(V)
	Q := vals.Quorum()
	evs := verifTopology(N, V, maxOther)
	order := make([]int, N)
	for i := range order {
		order[i] = i
	}
	vi := verifIndex(vals, evs, order)
	var vi2 *Index
	if secondOrder {
		// another parents-first order: always the highest-numbered event whose parents are all indexed
		done := make([]bool, N)
		var order2 []int
		for len(order2) < N {
			for i := N - 1; i >= 0; i-- {
				if done[i] {
					continue
				}
				ready := true
				for _, p := range evs[i].parents {
					ready = ready && done[p]
				}
				if ready {
					done[i] = true
					order2 = append(order2, i)
					break
				}
			}
		}
		vi2 = verifIndex(vals, evs, order2)
	}
	anyFork := false
	for a := 0; a < N; a++ {
		for b := 0; b < N; b++ {
			// graph definition
			var w pos.Weight
			for v := 0; v < V; v++ {
				if forkIn(evs, a, v) {
					anyFork = true
					continue
				}
				vouches := false
				for x := 0; x < N; x++ {
					if evs[a].anc[x] && evs[x].creator == v && evs[x].anc[b] {
						vouches = true
					}
				}
				if vouches {
					w += ws[v]
				}
			}
			def := !forkIn(evs, a, evs[b].creator) && w >= Q
			got := vi.ForklessCause(evs[a].e.ID(), evs[b].e.ID())
			sym.Assert(got == def, "ForklessCause equals the graph definition (cold cache)")
			sym.Assert(vi.ForklessCause(evs[a].e.ID(), evs[b].e.ID()) == def, "ForklessCause equals the graph definition (warm cache)")
			if vi2 != nil {
				sym.Assert(vi2.ForklessCause(evs[a].e.ID(), evs[b].e.ID()) == def, "ForklessCause is independent of the indexing order")
			}
			if def {
				sym.Reach("fc-true")
			}
		}
		// C06: merged vector clock
		merged := vi.GetMergedHighestBefore(evs[a].e.ID())
		for v := 0; v < V; v++ {
			var maxSeq idx.Event
			for x := 0; x < N; x++ {
				if evs[a].anc[x] && evs[x].creator == v && evs[x].seq > maxSeq {
					maxSeq = evs[x].seq
				}
			}
			got := merged.Get(idx.Validator(v))
			if forkIn(evs, a, v) {
				sym.Assert(got.IsForkDetected(), "merged clock reports a fork exactly when two same-seq events of the validator are in the ancestry")
				sym.Reach("fork-visible")
			} else {
				sym.Assert(!got.IsForkDetected() && got.Seq == maxSeq, "merged clock reports the highest observed sequence (0 if none)")
			}
		}
	}
	if anyFork {
		sym.Reach("fork")
	}
	sym.Reach("topology")
}

func VerifH_C05_n3v2() { verifC05(3, 2, 2, true) }
func VerifH_C05_n4v2() { verifC05(4, 2, 2, true) }

// the same with a DropNotFlushed after every flushed event (abft's usage)
func VerifH_C05_n4v2drop() {
	verifDropEach = true
	verifC05(4, 2, 2, false)
	sym.Reach("drop-each")
}
func VerifH_C05_n4v3() { verifC05(4, 3, 2, false) }
func VerifH_C05_n5v2() { verifC05(5, 2, 2, false) }

// VerifC06Via checks the merged-clock clauses of C06 through a caller-supplied reader, for the same symbolic
// topologies; used by the harness of utils/adapters (the adapter that abft and the emitter read the merged
// clock through), which cannot be imported from here.
func VerifC06Via(N, V, maxOther int, read func(vi *Index, id hash.Event, v idx.Validator) (idx.Event, bool)) {
	vals, _ := verifWeights(V)
	evs := verifTopology(N, V, maxOther)
	order := make([]int, N)
	for i := range order {
		order[i] = i
	}
	vi := verifIndex(vals, evs, order)
	for a := 0; a < N; a++ {
		for v := 0; v < V; v++ {
			var maxSeq idx.Event
			for x := 0; x < N; x++ {
				if evs[a].anc[x] && evs[x].creator == v && evs[x].seq > maxSeq {
					maxSeq = evs[x].seq
				}
			}
			seq, fork := read(vi, evs[a].e.ID(), idx.Validator(v))
			if forkIn(evs, a, v) {
				sym.Assert(fork, "merged clock reports a fork exactly when two same-seq events of the validator are in the ancestry")
				sym.Reach("fork-visible")
			} else {
				sym.Assert(!fork && seq == maxSeq, "merged clock reports the highest observed sequence (0 if none)")
			}
		}
	}
	sym.Reach("topology")
}
